package rules

import (
	"fmt"
	"go/ast"
	"go/token"
	"go/types"
	"strings"

	"golang.org/x/tools/go/packages"

	"rocheck/internal/model"
)

// ctxProv classifies the origin of context-typed expressions (rule CTX-PROVENANCE).
//
// allowed origins: the subscriber context of a subscribe closure; the ctx parameter of an
// observer slot; the context result of a user callback; context.With*(allowed, ...); a
// context stored from allowed origins (tuple fields, atomic.Value, struct fields, channels)
// when the read cannot observe the zero value; an API-supplied context parameter.
// forbidden origins: context.Background(), context.TODO(), nil, and the zero value of a
// context-typed variable that no assignment dominates and no companion flag guards.
type ctxProv struct {
	m        *model.Model
	scs      map[*ast.FuncLit]*model.SC
	slotLits map[*ast.FuncLit]bool
	callsOf  map[types.Object][]callRef
	argUses  map[types.Object][]argUse
	params   map[*types.Var]paramRef
	stores   map[token.Pos][]storeRef // atomic.Value / channel / field / element stores keyed by the declaration position of the variable or field
	inflight map[string]bool
	exempt   map[string]string // variable key -> reason (zero-value reads proven harmless by hand)
	Used     map[string]bool
	stack    []*ast.CallExpr // inlining call stack of the sink being classified
	stackPkg *packages.Package
}

type callRef struct {
	pkg  *packages.Package
	call *ast.CallExpr
}
type argUse struct {
	callee *types.Func
	index  int
}
type paramRef struct {
	pkg   *packages.Package
	fn    ast.Node
	index int
}
type storeRef struct {
	pkg  *packages.Package
	expr ast.Expr
	node ast.Node
}

type prov struct {
	ok        bool
	undecided bool
	why       string
}

func allowed(why string) prov   { return prov{ok: true, why: why} }
func forbidden(why string) prov { return prov{why: why} }
func undecided(why string) prov { return prov{undecided: true, why: why} }

func newCtxProv(m *model.Model) *ctxProv {
	cp := &ctxProv{m: m, scs: scLits(m), slotLits: map[*ast.FuncLit]bool{}, callsOf: map[types.Object][]callRef{},
		argUses: map[types.Object][]argUse{}, params: map[*types.Var]paramRef{}, stores: map[token.Pos][]storeRef{},
		inflight: map[string]bool{}, exempt: map[string]string{}, Used: map[string]bool{}}
	for _, p := range m.Pkgs {
		info := p.TypesInfo
		for _, fn := range funcNodes(p) {
			for i, v := range model.FlattenParams(info, funcType(fn).Params) {
				if v != nil {
					cp.params[v] = paramRef{p, fn, i}
				}
			}
		}
		for _, f := range p.Syntax {
			ast.Inspect(f, func(n ast.Node) bool {
				switch x := n.(type) {
				case *ast.CallExpr:
					callee := model.Callee(info, x)
					// observer constructor slots
					if oc, ok := m.Obj.ObserverCtors[callee]; ok {
						for k := 0; k < 3; k++ {
							if idx := oc.Slots[k]; idx >= 0 && idx < len(x.Args) {
								if lit, ok := ast.Unparen(x.Args[idx]).(*ast.FuncLit); ok {
									cp.slotLits[lit] = true
								}
							}
						}
					}
					// calls through identifiers (closures, func-typed params)
					if id, ok := ast.Unparen(x.Fun).(*ast.Ident); ok {
						if o := objOf(info, id); o != nil {
							if _, isVar := o.(*types.Var); isVar {
								cp.callsOf[o] = append(cp.callsOf[o], callRef{p, x})
							}
						}
					}
					if callee != nil {
						cp.callsOf[callee] = append(cp.callsOf[callee], callRef{p, x})
						for i, a := range x.Args {
							if id, ok := ast.Unparen(a).(*ast.Ident); ok {
								if o, ok := objOf(info, id).(*types.Var); ok {
									cp.argUses[o] = append(cp.argUses[o], argUse{callee, i})
								}
							}
						}
						// atomic.Value stores
						if model.IsMethod(callee, "sync/atomic", "Value", "Store") && len(x.Args) == 1 {
							if sel, ok := ast.Unparen(x.Fun).(*ast.SelectorExpr); ok {
								if id, _ := rootIdent(sel.X); id != nil {
									if o := objOf(info, id); o != nil {
										cp.stores[o.Pos()] = append(cp.stores[o.Pos()], storeRef{p, x.Args[0], x})
									}
								}
							}
						}
					}
				case *ast.SendStmt:
					if id, _ := rootIdent(x.Chan); id != nil {
						if o := objOf(info, id); o != nil {
							cp.stores[o.Pos()] = append(cp.stores[o.Pos()], storeRef{p, x.Value, x})
						}
					}
				case *ast.AssignStmt:
					// field stores: x.f = e ; element stores: v[i] = e
					if len(x.Lhs) == len(x.Rhs) {
						for i, l := range x.Lhs {
							switch lx := ast.Unparen(l).(type) {
							case *ast.SelectorExpr:
								if s, ok := info.Selections[lx]; ok && s.Kind() == types.FieldVal {
									cp.stores[s.Obj().Pos()] = append(cp.stores[s.Obj().Pos()], storeRef{p, x.Rhs[i], x})
								}
							case *ast.IndexExpr:
								if id, _ := rootIdent(lx.X); id != nil {
									if o := objOf(info, id); o != nil {
										cp.stores[o.Pos()] = append(cp.stores[o.Pos()], storeRef{p, x.Rhs[i], x})
									}
								}
							}
						}
					}
				case *ast.CompositeLit:
					// struct literal field initialisers
					for _, el := range x.Elts {
						if kv, ok := el.(*ast.KeyValueExpr); ok {
							if id, ok := kv.Key.(*ast.Ident); ok {
								if fo, ok := info.Uses[id].(*types.Var); ok && fo.IsField() {
									cp.stores[fo.Pos()] = append(cp.stores[fo.Pos()], storeRef{p, kv.Value, x})
								}
							}
						}
					}
				}
				return true
			})
		}
	}
	return cp
}

func isCtxType(t types.Type) bool { return t != nil && model.IsContext(t) }

// isCtxTuple reports whether t is lo.Tuple2[context.Context, X].
func isCtxTuple(t types.Type) bool {
	n, _ := types.Unalias(t).(*types.Named)
	if n == nil || n.Obj().Pkg() == nil || n.Obj().Pkg().Path() != "github.com/samber/lo" || !strings.HasPrefix(n.Obj().Name(), "Tuple") {
		return false
	}
	ta := n.TypeArgs()
	return ta != nil && ta.Len() >= 1 && isCtxType(ta.At(0))
}

func elemType(t types.Type) types.Type {
	switch u := t.Underlying().(type) {
	case *types.Slice:
		return u.Elem()
	case *types.Array:
		return u.Elem()
	case *types.Chan:
		return u.Elem()
	case *types.Pointer:
		return elemType(u.Elem())
	}
	return nil
}

// classify decides the provenance of a context-typed expression e located in pkg.
// at is the sink node (for guard / dominance reasoning).
func (cp *ctxProv) classify(pkg *packages.Package, e ast.Expr, at ast.Node, depth int) prov {
	if depth > 12 {
		return undecided("provenance chain too deep")
	}
	info := pkg.TypesInfo
	switch x := ast.Unparen(e).(type) {
	case *ast.Ident:
		o := objOf(info, x)
		switch ov := o.(type) {
		case *types.Nil:
			return forbidden("the literal nil")
		case *types.Var:
			return cp.classifyVar(pkg, ov, at, depth)
		}
		return undecided("identifier " + x.Name + " is not a variable")
	case *ast.CallExpr:
		callee := model.Callee(info, x)
		if callee != nil && callee.Pkg() != nil && callee.Pkg().Path() == "context" {
			switch callee.Name() {
			case "Background", "TODO":
				return forbidden("context." + callee.Name() + "()")
			case "WithValue", "WithCancel", "WithTimeout", "WithDeadline", "WithCancelCause", "WithTimeoutCause", "WithDeadlineCause", "WithoutCancel":
				if len(x.Args) > 0 {
					r := cp.classify(pkg, x.Args[0], at, depth+1)
					r.why = "context." + callee.Name() + "(" + r.why + ")"
					return r
				}
			}
			return undecided("context." + callee.Name())
		}
		// user callback result
		if id, ok := ast.Unparen(x.Fun).(*ast.Ident); ok {
			if v, ok := objOf(info, id).(*types.Var); ok {
				if _, isSig := v.Type().Underlying().(*types.Signature); isSig {
					if _, isParam := cp.params[v]; isParam {
						return allowed("result of callback " + v.Name())
					}
				}
			}
		}
		// the context carried by an object the API user supplied: <param>.Context() (an *http.Request)
		if sel, ok := ast.Unparen(x.Fun).(*ast.SelectorExpr); ok && sel.Sel.Name == "Context" && len(x.Args) == 0 {
			if id, ok := ast.Unparen(sel.X).(*ast.Ident); ok {
				if v, ok := objOf(info, id).(*types.Var); ok {
					if pr, isParam := cp.params[v]; isParam {
						if fd, ok := pr.fn.(*ast.FuncDecl); ok && fd.Recv == nil && fd.Name.IsExported() {
							return allowed("context of the API-supplied " + v.Name() + " of " + fd.Name.Name)
						}
					}
				}
			}
		}
		return undecided("result of call " + types.ExprString(x.Fun))
	case *ast.SelectorExpr:
		// tuple field .A ; struct field holding a context
		if s, ok := info.Selections[x]; ok && s.Kind() == types.FieldVal {
			xt := info.TypeOf(x.X)
			if isCtxTuple(xt) {
				return cp.classifyTuple(pkg, x.X, at, depth+1)
			}
			// struct field of context type: all stores must be allowed
			return cp.classifyStores(pkg, s.Obj(), "field "+s.Obj().Name(), at, depth+1, true)
		}
		return undecided("selector " + types.ExprString(x))
	case *ast.TypeAssertExpr:
		// atomic.Value: v.Load().(context.Context)
		if call, ok := ast.Unparen(x.X).(*ast.CallExpr); ok {
			callee := model.Callee(info, call)
			if model.IsMethod(callee, "sync/atomic", "Value", "Load") {
				if sel, ok := ast.Unparen(call.Fun).(*ast.SelectorExpr); ok {
					if id, _ := rootIdent(sel.X); id != nil {
						if o := objOf(info, id); o != nil {
							return cp.classifyStores(pkg, o, "atomic.Value "+id.Name, at, depth+1, true)
						}
					}
				}
			}
		}
		return undecided("type assertion " + types.ExprString(x))
	}
	return undecided("expression form " + fmt.Sprintf("%T", ast.Unparen(e)))
}

// classifyTuple decides the provenance of the context stored in a tuple-typed expression.
func (cp *ctxProv) classifyTuple(pkg *packages.Package, e ast.Expr, at ast.Node, depth int) prov {
	info := pkg.TypesInfo
	if depth > 12 {
		return undecided("provenance chain too deep")
	}
	switch x := ast.Unparen(e).(type) {
	case *ast.CallExpr:
		callee := model.Callee(info, x)
		if callee != nil && callee.Pkg() != nil && callee.Pkg().Path() == "github.com/samber/lo" && strings.HasPrefix(callee.Name(), "T") && len(x.Args) >= 1 {
			r := cp.classify(pkg, x.Args[0], x, depth+1)
			r.why = "tuple of " + r.why
			return r
		}
		return undecided("tuple from call " + types.ExprString(x.Fun))
	case *ast.CompositeLit:
		if len(x.Elts) == 0 {
			return forbidden("zero tuple literal (nil context)")
		}
		// lo.Tuple2[context.Context, T]{A: ctx, B: v} / {ctx, v}: the context is the A element
		var ctxElt ast.Expr
		for i, el := range x.Elts {
			if kv, ok := el.(*ast.KeyValueExpr); ok {
				if k, ok := kv.Key.(*ast.Ident); ok && k.Name == "A" {
					ctxElt = kv.Value
				}
			} else if i == 0 {
				ctxElt = el
			}
		}
		if ctxElt == nil {
			return forbidden("tuple literal without its context element (nil context)")
		}
		r := cp.classify(pkg, ctxElt, x, depth+1)
		r.why = "tuple of " + r.why
		return r
	case *ast.Ident:
		v, _ := objOf(info, x).(*types.Var)
		if v == nil {
			return undecided("tuple identifier")
		}
		return cp.classifyVar(pkg, v, at, depth)
	case *ast.IndexExpr:
		// element of a slice/array of tuples
		if cr := cp.containerOf(pkg, x.X); cr != nil {
			return cp.classifyContainerRef(pkg, cr, at, depth+1)
		}
		return undecided("tuple element of " + types.ExprString(x.X))
	case *ast.SelectorExpr:
		if s, ok := info.Selections[x]; ok && s.Kind() == types.FieldVal {
			return cp.classifyStores(pkg, s.Obj(), "field "+s.Obj().Name(), at, depth+1, true)
		}
	}
	return undecided("tuple expression " + types.ExprString(e))
}

// classifyVar: provenance of a context-typed or tuple-typed variable.
func (cp *ctxProv) classifyVar(pkg *packages.Package, v *types.Var, at ast.Node, depth int) prov {
	key := fmt.Sprintf("var@%d", v.Pos())
	if cp.inflight[key] {
		return allowed("(recursive definition)")
	}
	cp.inflight[key] = true
	defer delete(cp.inflight, key)

	if pr, ok := cp.params[v]; ok && len(cp.m.Defs[v]) == 0 {
		return cp.classifyParam(pkg, v, pr, depth)
	}
	defs := cp.m.Defs[v]
	isTuple := isCtxTuple(v.Type())
	if !isCtxType(v.Type()) && !isTuple {
		if et := elemType(v.Type()); et != nil && isCtxTuple(et) {
			return cp.classifyContainer(pkg, v, at, depth)
		}
		return undecided("variable " + v.Name() + " of type " + v.Type().String())
	}
	// range variable over a channel / slice of tuples
	var parts []string
	hasValueDef := false
	for _, d := range defs {
		switch n := d.Node.(type) {
		case *ast.RangeStmt:
			if cr := cp.containerOf(pkg, n.X); cr != nil {
				r := cp.classifyContainerRef(pkg, cr, at, depth+1)
				if !r.ok {
					return r
				}
				parts = append(parts, r.why)
				hasValueDef = true
				continue
			}
			return undecided("range over " + types.ExprString(n.X))
		}
		if d.Expr == nil {
			// tuple assignment: ctx, x := f(...)
			r := cp.classifyTupleAssign(pkg, v, d, at, depth+1)
			if !r.ok {
				return r
			}
			parts = append(parts, r.why)
			hasValueDef = true
			continue
		}
		if _, isParam := cp.params[v]; isParam && isFreshCtx(pkg.TypesInfo, d.Expr) != "" && guardedByNilTest(cp.m, pkg, d.Node, v) {
			parts = append(parts, "nil replaced by a fresh context")
			hasValueDef = true
			continue
		}
		var r prov
		if isTuple {
			r = cp.classifyTuple(pkg, d.Expr, d.Node, depth+1)
		} else {
			r = cp.classify(pkg, d.Expr, d.Node, depth+1)
		}
		if !r.ok {
			r.why = fmt.Sprintf("variable %s is assigned %s", v.Name(), r.why)
			return r
		}
		parts = append(parts, r.why)
		hasValueDef = true
	}
	// is the declaration zero-valued (var x T) ?
	zeroDecl := cp.isZeroDeclared(pkg, v)
	if pr, ok := cp.params[v]; ok {
		// reassigned parameter: the parameter's own origin counts as one more definition
		r := cp.classifyParam(pkg, v, pr, depth)
		if !r.ok {
			return r
		}
		parts = append(parts, r.why)
		zeroDecl = false
	}
	if !hasValueDef && !zeroDecl {
		return undecided("variable " + v.Name() + " has no visible definition")
	}
	if zeroDecl {
		if g := cp.zeroGuard(pkg, v.Pos(), at); g != "" {
			parts = append(parts, g)
		} else {
			vk := cp.varKey(pkg, v)
			if why, ok := cp.exempt[vk]; ok {
				cp.Used[vk] = true
				parts = append(parts, "zero value exempt: "+why)
			} else if !hasValueDef {
				return forbidden("variable " + v.Name() + " is never assigned (nil context)")
			} else {
				return forbidden(fmt.Sprintf("variable %s (key %s) is declared with the zero value (nil context) and neither a dominating assignment nor a companion flag guards this use: the nil context can be delivered", v.Name(), vk))
			}
		}
	}
	return allowed("variable " + v.Name() + " <- " + strings.Join(uniq(parts), " | "))
}

func uniq(in []string) []string {
	seen := map[string]bool{}
	var out []string
	for _, s := range in {
		if !seen[s] {
			seen[s] = true
			out = append(out, s)
		}
	}
	return out
}

func (cp *ctxProv) varKey(pkg *packages.Package, v *types.Var) string {
	// enclosing declaration + variable name
	for _, p := range cp.m.Pkgs {
		if p != pkg {
			continue
		}
		for _, f := range p.Syntax {
			if f.Pos() <= v.Pos() && v.Pos() < f.End() {
				for _, d := range f.Decls {
					if fd, ok := d.(*ast.FuncDecl); ok && fd.Pos() <= v.Pos() && v.Pos() < fd.End() {
						// the ordinal of v among the context variables the declaration declares without a value
						// (source order): a rename does not change the key
						ord, mine := 0, 0
						ast.Inspect(fd, func(x ast.Node) bool {
							vs, ok := x.(*ast.ValueSpec)
							if !ok || len(vs.Values) != 0 {
								return true
							}
							for _, id := range vs.Names {
								if o, ok := p.TypesInfo.Defs[id].(*types.Var); ok && model.IsContext(o.Type()) {
									ord++
									if o == v {
										mine = ord
									}
								}
							}
							return true
						})
						if mine > 0 {
							return fmt.Sprintf("%s.%s/zero-ctx#%d", model.ShortPkg(p.PkgPath), model.DeclName(fd), mine)
						}
						return model.ShortPkg(p.PkgPath) + "." + model.DeclName(fd) + "/" + v.Name()
					}
				}
			}
		}
	}
	return v.Name()
}

// isZeroDeclared reports whether v is declared by `var v T` without value.
func (cp *ctxProv) isZeroDeclared(pkg *packages.Package, v *types.Var) bool {
	zero := false
	for _, f := range pkg.Syntax {
		if !(f.Pos() <= v.Pos() && v.Pos() < f.End()) {
			continue
		}
		ast.Inspect(f, func(n ast.Node) bool {
			if n == nil || !(n.Pos() <= v.Pos() && v.Pos() < n.End()) {
				return false
			}
			if vs, ok := n.(*ast.ValueSpec); ok {
				for _, id := range vs.Names {
					if pkg.TypesInfo.Defs[id] == v && len(vs.Values) == 0 {
						zero = true
					}
				}
			}
			return true
		})
	}
	return zero
}

// zeroGuard recognises, structurally, why a read at `at` of the variable/field declared at
// vpos cannot observe its zero (or seed) value: (a) an assignment to it dominates the read
// inside the same function (statement of an enclosing block located before the read);
// (b) companion flag: the read is control-dependent on a condition mentioning a variable or
// field that is written in a block where the variable/field itself is written.
func (cp *ctxProv) zeroGuard(pkg *packages.Package, vpos token.Pos, at ast.Node) string {
	if at == nil {
		return ""
	}
	info := pkg.TypesInfo
	m := cp.m
	// (a) dominating assignment: walk up the parents of `at` up to its function node
	for c := ast.Node(at); c != nil; c = m.Parent(pkg, c) {
		if _, isFn := c.(*ast.FuncLit); isFn {
			break
		}
		if _, isFn := c.(*ast.FuncDecl); isFn {
			break
		}
		par := m.Parent(pkg, c)
		blk, ok := par.(*ast.BlockStmt)
		if !ok {
			continue
		}
		for _, s := range blk.List {
			if s.End() > c.Pos() {
				break
			}
			if as, ok := s.(*ast.AssignStmt); ok {
				for _, l := range as.Lhs {
					if id, ok := l.(*ast.Ident); ok {
						if o := objOf(info, id); o != nil && o.Pos() == vpos {
							return "assignment dominates the use"
						}
					}
				}
			}
		}
	}
	// blocks where the variable/field is written, and what else is written there
	flagCands := map[token.Pos]bool{}
	addBlock := func(p *packages.Package, n ast.Node) {
		blk := enclosingBlock(m, p, n)
		if blk == nil {
			return
		}
		for _, s := range blk.List {
			for _, wp := range writtenPositions(p.TypesInfo, s) {
				if wp != vpos {
					flagCands[wp] = true
				}
			}
		}
	}
	for o, defs := range m.Defs {
		if o.Pos() != vpos {
			continue
		}
		for _, d := range defs {
			addBlock(pkg, d.Node)
		}
	}
	for _, st := range cp.stores[vpos] {
		if _, isLit := st.node.(*ast.CompositeLit); isLit {
			continue
		}
		addBlock(st.pkg, st.node)
	}
	if len(flagCands) == 0 {
		return ""
	}
	// (b) control dependence of `at` on a condition mentioning a flag candidate
	for c := ast.Node(at); c != nil; c = m.Parent(pkg, c) {
		par := m.Parent(pkg, c)
		var cond ast.Expr
		switch p := par.(type) {
		case *ast.IfStmt:
			if c == p.Body || c == p.Else {
				cond = p.Cond
			}
		case *ast.ForStmt:
			if c == p.Body {
				cond = p.Cond
			}
		case *ast.CaseClause:
			if sw, ok := m.Parent(pkg, m.Parent(pkg, par)).(*ast.SwitchStmt); ok && sw.Tag != nil {
				cond = sw.Tag
			}
		}
		if cond != nil {
			name := ""
			ast.Inspect(cond, func(n ast.Node) bool {
				if id, ok := n.(*ast.Ident); ok {
					if o := objOf(info, id); o != nil && flagCands[o.Pos()] {
						name = id.Name
					}
				}
				return true
			})
			if name != "" {
				return "zero/seed value guarded by companion flag " + name
			}
		}
		if _, isFn := par.(*ast.FuncLit); isFn {
			break
		}
		if _, isFn := par.(*ast.FuncDecl); isFn {
			break
		}
	}
	return ""
}

// writtenPositions lists the declaration positions of the variables and fields written
// directly in stmt (fields: x.f = ..., x.f++).
func writtenPositions(info *types.Info, stmt ast.Node) []token.Pos {
	var out []token.Pos
	for _, w := range writesIn(info, stmt) {
		out = append(out, w.Var.Pos())
	}
	ast.Inspect(stmt, func(n ast.Node) bool {
		switch x := n.(type) {
		case *ast.FuncLit:
			return false
		case *ast.AssignStmt:
			for _, l := range x.Lhs {
				if sel, ok := ast.Unparen(l).(*ast.SelectorExpr); ok {
					if s, ok := info.Selections[sel]; ok && s.Kind() == types.FieldVal {
						out = append(out, s.Obj().Pos())
					}
				}
			}
		case *ast.IncDecStmt:
			if sel, ok := ast.Unparen(x.X).(*ast.SelectorExpr); ok {
				if s, ok := info.Selections[sel]; ok && s.Kind() == types.FieldVal {
					out = append(out, s.Obj().Pos())
				}
			}
		}
		return true
	})
	return out
}

func enclosingBlock(m *model.Model, pkg *packages.Package, n ast.Node) *ast.BlockStmt {
	for c := n; c != nil; c = m.Parent(pkg, c) {
		if b, ok := m.Parent(pkg, c).(*ast.BlockStmt); ok {
			return b
		}
		if cc, ok := m.Parent(pkg, c).(*ast.CaseClause); ok {
			return &ast.BlockStmt{List: cc.Body}
		}
	}
	return nil
}

// classifyTupleAssign handles `ctx, x := f(...)` / `lastCtx, out = accumulator(...)`.
func (cp *ctxProv) classifyTupleAssign(pkg *packages.Package, v *types.Var, d model.DefSite, at ast.Node, depth int) prov {
	info := pkg.TypesInfo
	as, ok := d.Node.(*ast.AssignStmt)
	if !ok || len(as.Rhs) != 1 {
		if _, isInc := d.Node.(*ast.IncDecStmt); isInc {
			return undecided("inc/dec of a context variable")
		}
		return undecided("definition of " + v.Name() + " by " + fmt.Sprintf("%T", d.Node))
	}
	switch r := ast.Unparen(as.Rhs[0]).(type) {
	case *ast.CallExpr:
		callee := model.Callee(info, r)
		if callee != nil && callee.Pkg() != nil && callee.Pkg().Path() == "context" && strings.HasPrefix(callee.Name(), "With") && len(r.Args) > 0 {
			res := cp.classify(pkg, r.Args[0], at, depth+1)
			res.why = "context." + callee.Name() + "(" + res.why + ")"
			return res
		}
		if id, ok := ast.Unparen(r.Fun).(*ast.Ident); ok {
			if fv, ok := objOf(info, id).(*types.Var); ok {
				if _, isParam := cp.params[fv]; isParam {
					return allowed("result of callback " + fv.Name())
				}
			}
		}
		if model.IsPkgFunc(callee, ro, "CollectWithContext") && len(r.Args) > 0 {
			// the context of the terminal notification of the collected source, itself subscribed with args[0]
			res := cp.classify(pkg, r.Args[0], at, depth+1)
			res.why = "terminal context of CollectWithContext(" + res.why + ")"
			return res
		}
		return undecided("tuple result of " + types.ExprString(r.Fun))
	case *ast.UnaryExpr:
		if r.Op == token.ARROW {
			if id, _ := rootIdent(r.X); id != nil {
				if cv, ok := objOf(info, id).(*types.Var); ok {
					return cp.classifyContainer(pkg, cv, at, depth+1)
				}
			}
		}
	}
	return undecided("tuple assignment from " + types.ExprString(as.Rhs[0]))
}

// containerRef identifies a slice/array/channel of tuples: a variable or a struct field.
type containerRef struct {
	pos   token.Pos
	name  string
	v     *types.Var // nil for fields
	param bool
}

func (cp *ctxProv) containerOf(pkg *packages.Package, e ast.Expr) *containerRef {
	info := pkg.TypesInfo
	switch x := ast.Unparen(e).(type) {
	case *ast.Ident:
		if v, ok := objOf(info, x).(*types.Var); ok {
			_, isParam := cp.params[v]
			return &containerRef{pos: v.Pos(), name: v.Name(), v: v, param: isParam && len(cp.m.Defs[v]) == 0}
		}
	case *ast.SelectorExpr:
		if s, ok := info.Selections[x]; ok && s.Kind() == types.FieldVal {
			return &containerRef{pos: s.Obj().Pos(), name: "field " + s.Obj().Name()}
		}
	case *ast.StarExpr:
		return cp.containerOf(pkg, x.X)
	case *ast.SliceExpr:
		return cp.containerOf(pkg, x.X)
	}
	return nil
}

// classifyContainer: provenance of the elements of a slice/array/channel of tuples.
func (cp *ctxProv) classifyContainer(pkg *packages.Package, v *types.Var, at ast.Node, depth int) prov {
	_, isParam := cp.params[v]
	return cp.classifyContainerRef(pkg, &containerRef{pos: v.Pos(), name: v.Name(), v: v, param: isParam && len(cp.m.Defs[v]) == 0}, at, depth)
}

func (cp *ctxProv) classifyContainerRef(pkg *packages.Package, cr *containerRef, at ast.Node, depth int) prov {
	key := fmt.Sprintf("cont@%d", cr.pos)
	if cp.inflight[key] {
		return allowed("(recursive)")
	}
	cp.inflight[key] = true
	defer delete(cp.inflight, key)
	var parts []string
	mayHoldZero := false
	if cr.param {
		return undecided("container parameter " + cr.name)
	}
	type def struct {
		pkg  *packages.Package
		expr ast.Expr
		node ast.Node
		elem bool // element store (x[i] = e, ch <- e) rather than a definition of the container
	}
	var defs []def
	if cr.v != nil {
		for _, d := range cp.m.Defs[cr.v] {
			if d.Expr == nil {
				return undecided("container " + cr.name + " defined by tuple assignment")
			}
			defs = append(defs, def{pkg, d.Expr, d.Node, false})
		}
	}
	for _, st := range cp.stores[cr.pos] {
		t := st.pkg.TypesInfo.TypeOf(st.expr)
		defs = append(defs, def{st.pkg, st.expr, st.node, t != nil && isCtxTuple(t)})
	}
	for _, d := range defs {
		if d.elem {
			r := cp.classifyTuple(d.pkg, d.expr, d.node, depth+1)
			if !r.ok {
				return r
			}
			parts = append(parts, r.why)
			continue
		}
		r, zero := cp.containerExpr(d.pkg, cr, d.expr, at, depth+1)
		if !r.ok {
			return r
		}
		if zero {
			mayHoldZero = true
		}
		if r.why != "" {
			parts = append(parts, r.why)
		}
	}
	if mayHoldZero {
		if g := cp.zeroGuard(pkg, cr.pos, at); g != "" {
			parts = append(parts, g)
		} else {
			return forbidden(fmt.Sprintf("container %s is created with zero-valued elements (nil contexts) and no companion flag guards this read", cr.name))
		}
	}
	if len(parts) == 0 {
		return undecided("container " + cr.name + " has no visible stores")
	}
	return allowed("elements of " + cr.name + " <- " + strings.Join(uniq(parts), " | "))
}

// containerExpr classifies one definition of a container; zero reports whether the
// definition creates zero-valued elements.
func (cp *ctxProv) containerExpr(pkg *packages.Package, cr *containerRef, e ast.Expr, at ast.Node, depth int) (prov, bool) {
	same := func(x ast.Expr) bool {
		o := cp.containerOf(pkg, x)
		return o != nil && o.pos == cr.pos
	}
	info := pkg.TypesInfo
	switch x := ast.Unparen(e).(type) {
	case *ast.CompositeLit:
		for _, el := range x.Elts {
			r := cp.classifyTuple(pkg, el, at, depth+1)
			if !r.ok {
				return r, false
			}
		}
		return allowed(""), false
	case *ast.SliceExpr:
		if same(x.X) {
			return allowed(""), false
		}
	case *ast.Ident:
		if _, ok := objOf(info, x).(*types.Nil); ok {
			return allowed(""), false
		}
	case *ast.CallExpr:
		if id, ok := ast.Unparen(x.Fun).(*ast.Ident); ok {
			if b, ok := info.Uses[id].(*types.Builtin); ok {
				switch b.Name() {
				case "make":
					if _, isChan := info.TypeOf(x).Underlying().(*types.Chan); isChan {
						return allowed(""), false
					}
					// make([]T, n[, c]): zero elements when n is not the constant 0
					if len(x.Args) >= 2 {
						if tv, ok := info.Types[x.Args[1]]; ok && tv.Value != nil && tv.Value.String() == "0" {
							return allowed(""), false
						}
						return allowed(""), true
					}
					return allowed(""), false
				case "append":
					var parts []string
					for i, a := range x.Args {
						if i == 0 {
							if same(a) {
								continue
							}
							r, z := cp.containerExpr(pkg, cr, a, at, depth+1)
							if !r.ok || z {
								return r, z
							}
							continue
						}
						r := cp.classifyTuple(pkg, a, x, depth+1)
						if !r.ok {
							return r, false
						}
						parts = append(parts, r.why)
					}
					return allowed(strings.Join(uniq(parts), " | ")), false
				}
			}
		}
	}
	return undecided("container definition " + types.ExprString(e)), false
}

// classifyStores: every value stored into obj (atomic.Value, struct field, channel) must be
// allowed. Constructor seeds (composite-literal initialisers) that are zero or fresh contexts
// are tolerated only when the read is guarded by a companion flag.
func (cp *ctxProv) classifyStores(pkg *packages.Package, obj types.Object, what string, at ast.Node, depth int, needGuard bool) prov {
	key := fmt.Sprintf("store@%d", obj.Pos())
	if cp.inflight[key] {
		return allowed("(recursive)")
	}
	cp.inflight[key] = true
	defer delete(cp.inflight, key)
	sts := cp.stores[obj.Pos()]
	if len(sts) == 0 {
		return undecided(what + " has no visible stores")
	}
	var parts []string
	seed := ""
	for _, st := range sts {
		t := st.pkg.TypesInfo.TypeOf(st.expr)
		_, isSeed := st.node.(*ast.CompositeLit)
		var r prov
		switch {
		case isCtxTuple(t):
			if cl, ok := ast.Unparen(st.expr).(*ast.CompositeLit); ok && len(cl.Elts) == 0 {
				seed = "zero tuple"
				continue
			}
			r = cp.classifyTuple(st.pkg, st.expr, st.node, depth+1)
		default:
			r = cp.classify(st.pkg, st.expr, st.node, depth+1)
		}
		if !r.ok {
			if isSeed && !r.undecided {
				// a constructor that has no context in scope may seed a fresh (non-nil) context:
				// there is no subscription to derive it from (BehaviorSubject's initial value)
				if !hasCtxInScope(cp.m, st.pkg, cp.m.EnclosingFuncs(st.pkg, st.node)) && !strings.Contains(r.why, "nil") && !strings.Contains(r.why, "zero") {
					parts = append(parts, "constructor seed ("+r.why+", no context in scope)")
					continue
				}
				seed = r.why
				continue
			}
			r.why = what + " is stored " + r.why
			return r
		}
		parts = append(parts, r.why)
	}
	if seed != "" {
		g := cp.zeroGuard(pkg, obj.Pos(), at)
		if g == "" {
			return forbidden(what + " is seeded with " + seed + " (not derived from a subscription) and no companion flag guards this read")
		}
		parts = append(parts, g)
	}
	if len(parts) == 0 {
		return undecided(what + " has no visible stores")
	}
	return allowed(what + " <- " + strings.Join(uniq(parts), " | "))
}

// classifyParam: provenance of a context-typed parameter.
func (cp *ctxProv) classifyParam(pkg *packages.Package, v *types.Var, pr paramRef, depth int) prov {
	if !isCtxType(v.Type()) && !isCtxTuple(v.Type()) {
		return undecided("parameter " + v.Name() + " of type " + v.Type().String())
	}
	switch fn := pr.fn.(type) {
	case *ast.FuncLit:
		if sc := cp.scs[fn]; sc != nil {
			return allowed("subscriber context")
		}
		if cp.slotLits[fn] {
			return allowed("slot ctx")
		}
		// local closure: every call site must pass an allowed context
		par := cp.m.Parent(pr.pkg, fn)
		var holder types.Object
		switch p := par.(type) {
		case *ast.AssignStmt:
			for i, r := range p.Rhs {
				if ast.Unparen(r) == ast.Expr(fn) && i < len(p.Lhs) {
					if id, ok := p.Lhs[i].(*ast.Ident); ok {
						holder = objOf(pr.pkg.TypesInfo, id)
					}
				}
			}
		case *ast.ValueSpec:
			for i, r := range p.Values {
				if ast.Unparen(r) == ast.Expr(fn) && i < len(p.Names) {
					holder = pr.pkg.TypesInfo.Defs[p.Names[i]]
				}
			}
		case *ast.ReturnStmt:
			// closure returned by a helper (makePrecisionRoundNext): used as a slot by its callers
			chain := cp.m.EnclosingFuncs(pr.pkg, fn)
			if len(chain) >= 2 {
				if fd, ok := chain[len(chain)-2].(*ast.FuncDecl); ok {
					if fo, ok := pr.pkg.TypesInfo.Defs[fd.Name].(*types.Func); ok {
						// all uses of the helper must be observer-constructor slots
						uses := cp.callsOf[fo]
						okAll := len(uses) > 0
						for _, u := range uses {
							pc, _ := cp.m.Parent(u.pkg, u.call).(*ast.CallExpr)
							if pc == nil {
								okAll = false
								break
							}
							if _, isOC := cp.m.Obj.ObserverCtors[model.Callee(u.pkg.TypesInfo, pc)]; !isOC {
								okAll = false
							}
						}
						if okAll {
							return allowed("slot ctx (closure returned by " + fd.Name.Name + ")")
						}
					}
				}
			}
		case *ast.CallExpr:
			// literal passed directly as an argument: adapter literals of delegating variants
			// (MapIWithContext(func(ctx, v, i) ...)) receive the base operator's slot context;
			// function values handed to helpers are followed through the helper's parameter
			callee := model.Callee(pr.pkg.TypesInfo, p)
			if callee != nil {
				for i, a := range p.Args {
					if ast.Unparen(a) == ast.Expr(fn) {
						if d := cp.m.Decls[callee]; d != nil {
							ps := model.FlattenParams(d.Pkg.TypesInfo, d.Decl.Type.Params)
							if i < len(ps) && ps[i] != nil {
								return cp.calledWith(ps[i], pr.index, depth+1, "literal passed to "+callee.Name())
							}
						}
					}
				}
			}
			return undecided("context parameter of a literal passed to " + types.ExprString(p.Fun))
		}
		if holder != nil {
			return cp.calledWith(holder, pr.index, depth+1, "closure "+holder.Name())
		}
		return undecided("context parameter " + v.Name() + " of an anonymous function in unrecognised position")
	case *ast.FuncDecl:
		fo, _ := pr.pkg.TypesInfo.Defs[fn.Name].(*types.Func)
		if fn.Recv != nil {
			return allowed("method parameter " + v.Name())
		}
		if fo != nil && fo.Exported() {
			return allowed("API-supplied context parameter " + v.Name() + " of " + fo.Name())
		}
		if fo != nil {
			return cp.calledWith(fo, pr.index, depth+1, "helper "+fo.Name())
		}
	}
	return undecided("parameter " + v.Name())
}

// calledWith: every call of the function value held by obj passes an allowed context at index.
func (cp *ctxProv) calledWith(obj types.Object, index int, depth int, what string) prov {
	key := fmt.Sprintf("calls@%d#%d", obj.Pos(), index)
	if cp.inflight[key] {
		return allowed("(recursive)")
	}
	cp.inflight[key] = true
	defer delete(cp.inflight, key)
	if depth > 12 {
		return undecided("call chain too deep")
	}
	n := 0
	var parts []string
	calls := cp.callsOf[obj]
	// when the sink was reached through a specific call of this function (inlining stack of
	// the model), only that call binds the parameter
	for i := len(cp.stack) - 1; i >= 0; i-- {
		found := false
		for _, cr := range calls {
			if cr.call == cp.stack[i] {
				calls = []callRef{cr}
				found = true
				break
			}
		}
		if found {
			break
		}
	}
	for _, cr := range calls {
		if index >= len(cr.call.Args) {
			// spread call f(g()) : undecided
			return undecided("call of " + what + " with spread arguments")
		}
		r := cp.classify(cr.pkg, cr.call.Args[index], cr.call, depth+1)
		if !r.ok {
			r.why = what + " is called with " + r.why
			return r
		}
		parts = append(parts, r.why)
		n++
	}
	// function value handed to helpers / used as callbacks
	if v, ok := obj.(*types.Var); ok {
		for _, au := range cp.argUses[v] {
			if au.callee == nil {
				continue
			}
			if model.IsPkgFunc(au.callee, "time", "AfterFunc") {
				continue // no parameters
			}
			d := cp.m.Decls[au.callee]
			if d == nil {
				if _, isOC := cp.m.Obj.ObserverCtors[au.callee]; isOC {
					parts = append(parts, "slot ctx")
					n++
					continue
				}
				return undecided(what + " is passed to " + au.callee.Name())
			}
			if _, isOC := cp.m.Obj.ObserverCtors[au.callee]; isOC {
				parts = append(parts, "slot ctx")
				n++
				continue
			}
			ps := model.FlattenParams(d.Pkg.TypesInfo, d.Decl.Type.Params)
			if au.index < len(ps) && ps[au.index] != nil {
				r := cp.calledWith(ps[au.index], index, depth+1, what+" via "+au.callee.Name())
				if !r.ok {
					return r
				}
				parts = append(parts, r.why)
				n++
			}
		}
	}
	if n == 0 {
		return undecided(what + " has no visible call site")
	}
	return allowed(strings.Join(uniq(parts), " | "))
}

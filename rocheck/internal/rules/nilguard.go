package rules

import (
	"fmt"
	"go/ast"
	"go/token"
	"go/types"

	"rocheck/internal/check"
)

// NIL-GUARD-POLARITY: a contradiction rule. Code that tests X against nil believes X can be nil; a use of X that
// needs it non-nil (a method call or field selection on X, or calling X) at a point every path reaches only through the
// edge on which X *is* nil is a certain nil dereference.
func ruleNilGuardPolarity() check.Rule {
	return check.Rule{
		Name:        "NIL-GUARD-POLARITY",
		Doc:         "in every function of the armed packages, no method call, field selection or call through an expression X (a variable, or a field path of the receiver) is dominated by the edge of a nil test on which X is nil (`if X == nil { X.m() }`, `if X != nil { return }; X.m()`), unless X is assigned in between: the guard's polarity is inverted and the use panics in the caller's goroutine (subscriber delivering only when it has no destination, subject notifying only the missing observer)",
		NeedControl: true,
		Run: func(c *check.Ctx) {
			m := c.M
			scs := scLits(m)
			for _, p := range m.Pkgs {
				armed := c.ArmedPkg(p.PkgPath)
				info := p.TypesInfo
				for _, fn := range funcNodes(p) {
					body := funcBody(fn)
					if body == nil {
						continue
					}
					// nil tests in this function (not in nested literals)
					type test struct {
						key string
					}
					tests := map[string]bool{}
					nilTestOf := func(e ast.Expr) (string, bool, bool) { // key, isEq, ok
						be, ok := ast.Unparen(e).(*ast.BinaryExpr)
						if !ok || (be.Op != token.EQL && be.Op != token.NEQ) {
							return "", false, false
						}
						isNil := func(x ast.Expr) bool {
							id, ok := ast.Unparen(x).(*ast.Ident)
							if !ok {
								return false
							}
							_, n := info.Uses[id].(*types.Nil)
							return n
						}
						var x ast.Expr
						switch {
						case isNil(be.Y):
							x = be.X
						case isNil(be.X):
							x = be.Y
						default:
							return "", false, false
						}
						k := pathKey(info, x)
						if k == "" {
							return "", false, false
						}
						return k, be.Op == token.EQL, true
					}
					ast.Inspect(body, func(n ast.Node) bool {
						if l, ok := n.(*ast.FuncLit); ok && ast.Node(l) != fn {
							return false
						}
						if ifs, ok := n.(*ast.IfStmt); ok {
							cond := ast.Unparen(ifs.Cond)
							if u, ok := cond.(*ast.UnaryExpr); ok && u.Op == token.NOT {
								cond = ast.Unparen(u.X)
							}
							if k, _, ok := nilTestOf(cond); ok {
								tests[k] = true
							}
						}
						return true
					})
					if len(tests) == 0 {
						continue
					}
					c.Inc("functions_with_nil_tests", 1)
					chain := m.EnclosingFuncs(p, fn)
					fkey := chainKey(m, p, chain, scs)
					cnt := 0
					for k := range tests {
						isNilEdge := func(cond ast.Expr, polarity bool) bool {
							e := ast.Unparen(cond)
							if u, ok := e.(*ast.UnaryExpr); ok && u.Op == token.NOT {
								e, polarity = ast.Unparen(u.X), !polarity
							}
							kk, isEq, ok := nilTestOf(e)
							if !ok || kk != k {
								return false
							}
							return isEq == polarity // (X == nil) true edge, or (X != nil) false edge
						}
						// assignments to X anywhere in the function disable the check for that X (flow-insensitive escape)
						reassigned := false
						aliases := map[string]bool{}
						ast.Inspect(body, func(n ast.Node) bool {
							if l, ok := n.(*ast.FuncLit); ok && ast.Node(l) != fn {
								return false
							}
							if as, ok := n.(*ast.AssignStmt); ok {
								for i, l := range as.Lhs {
									if pathKey(info, l) == k && as.Tok != token.DEFINE {
										// clearing the value (X = nil) does not make it usable
										clears := false
										if i < len(as.Rhs) {
											if id, ok := ast.Unparen(as.Rhs[i]).(*ast.Ident); ok {
												_, clears = info.Uses[id].(*types.Nil)
											}
										}
										if !clears {
											reassigned = true
										}
									}
									// a local copy taken on the nil edge is nil too
									if i < len(as.Rhs) && pathKey(info, as.Rhs[i]) == k {
										if ak := pathKey(info, l); ak != "" && ak != k && guardedByEdge(body, as, isNilEdge) {
											aliases[ak] = true
										}
									}
								}
							}
							return true
						})
						if reassigned {
							continue
						}
						for ak := range aliases {
							ast.Inspect(body, func(n ast.Node) bool {
								var base ast.Expr
								switch x := n.(type) {
								case *ast.SelectorExpr:
									base = x.X
								case *ast.CallExpr:
									base = x.Fun
								default:
									return true
								}
								if pathKey(info, base) == ak {
									cnt++
									c.Report(armed, fmt.Sprintf("%s/nil-use#%d", fkey, cnt), n.Pos(), "this use goes through a local copy that was taken on the branch where the nil test says the value is nil: the guard is inverted and the use dereferences nil")
									return false
								}
								return true
							})
						}
						ast.Inspect(body, func(n ast.Node) bool {
							if l, ok := n.(*ast.FuncLit); ok && ast.Node(l) != fn {
								return false
							}
							var base ast.Expr
							switch x := n.(type) {
							case *ast.SelectorExpr:
								base = x.X
							case *ast.CallExpr:
								base = x.Fun
							default:
								return true
							}
							if pathKey(info, base) != k {
								return true
							}
							// a selector that is itself the operand of the nil test is not a use
							if guardedByEdge(body, n, isNilEdge) {
								cnt++
								c.Report(armed, fmt.Sprintf("%s/nil-use#%d", fkey, cnt), n.Pos(), "this use is reached only on the branch where the nil test says the value is nil: the guard is inverted and the use dereferences nil")
							}
							return true
						})
					}
					if cnt == 0 && armed {
						c.OK(fkey+"/nil-guards", fn.Pos(), "no use of a nil-tested value on its nil branch")
					}
				}
			}
		},
	}
}

// pathKey renders an identifier or a selector path rooted at an identifier (a.b.c) as an object-based key.
func pathKey(info *types.Info, e ast.Expr) string {
	switch x := ast.Unparen(e).(type) {
	case *ast.Ident:
		o := info.Uses[x]
		if o == nil {
			o = info.Defs[x]
		}
		if v, ok := o.(*types.Var); ok {
			return fmt.Sprintf("%s@%d", v.Name(), v.Pos())
		}
	case *ast.SelectorExpr:
		if s, ok := info.Selections[x]; ok && s.Kind() == types.FieldVal {
			if b := pathKey(info, x.X); b != "" {
				return b + "." + x.Sel.Name
			}
		}
	}
	return ""
}

const controlsNilGuard = `
type verifControlNilGuard struct {
	next func(int)
}

func (v *verifControlNilGuard) emit(x int) {
	if v.next == nil {
		v.next(x)
	}
}
`

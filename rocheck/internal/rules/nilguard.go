package rules

import (
	"fmt"
	"go/ast"
	"go/token"
	"go/types"
	"sort"

	"rocheck/internal/check"
	"rocheck/internal/load"
	"rocheck/internal/model"
)

// NIL-GUARD-POLARITY: a contradiction rule. Code that tests X against nil believes X can be nil; a use of X that
// needs it non-nil (a method call or field selection on X, or calling X) at a point every path reaches only through the
// edge on which X *is* nil is a certain nil dereference.
func ruleNilGuardPolarity() check.Rule {
	return check.Rule{
		Name:        "NIL-GUARD-POLARITY",
		Doc:         "in every function of the armed packages, no method call, field selection or call through an expression X (a variable, or a field path of the receiver) is dominated by the edge of a nil test on which X is nil (`if X == nil { X.m() }`, `if X != nil { return }; X.m()`), unless X is assigned in between: the guard's polarity is inverted and the use panics in the caller's goroutine (subscriber delivering only when it has no destination, subject notifying only the missing observer)",
		NeedControl: true,
		Run: func(c *check.Ctx) {
			m := c.M
			scs := scLits(m)
			for _, p := range m.Pkgs {
				armed := c.ArmedPkg(p.PkgPath)
				info := p.TypesInfo
				for _, fn := range funcNodes(p) {
					body := funcBody(fn)
					if body == nil {
						continue
					}
					// nil tests in this function (not in nested literals)
					type test struct {
						key string
					}
					tests := map[string]bool{}
					nilTestOf := func(e ast.Expr) (string, bool, bool) { // key, isEq, ok
						be, ok := ast.Unparen(e).(*ast.BinaryExpr)
						if !ok || (be.Op != token.EQL && be.Op != token.NEQ) {
							return "", false, false
						}
						isNil := func(x ast.Expr) bool {
							id, ok := ast.Unparen(x).(*ast.Ident)
							if !ok {
								return false
							}
							_, n := info.Uses[id].(*types.Nil)
							return n
						}
						var x ast.Expr
						switch {
						case isNil(be.Y):
							x = be.X
						case isNil(be.X):
							x = be.Y
						default:
							return "", false, false
						}
						k := pathKey(info, x)
						if k == "" {
							return "", false, false
						}
						return k, be.Op == token.EQL, true
					}
					ast.Inspect(body, func(n ast.Node) bool {
						if l, ok := n.(*ast.FuncLit); ok && ast.Node(l) != fn {
							return false
						}
						if ifs, ok := n.(*ast.IfStmt); ok {
							cond := ast.Unparen(ifs.Cond)
							if u, ok := cond.(*ast.UnaryExpr); ok && u.Op == token.NOT {
								cond = ast.Unparen(u.X)
							}
							if k, _, ok := nilTestOf(cond); ok {
								tests[k] = true
							}
						}
						return true
					})
					if len(tests) == 0 {
						continue
					}
					c.Inc("functions_with_nil_tests", 1)
					chain := m.EnclosingFuncs(p, fn)
					fkey := chainKey(m, p, chain, scs)
					cnt := 0
					for k := range tests {
						isNilEdge := func(cond ast.Expr, polarity bool) bool {
							e := ast.Unparen(cond)
							if u, ok := e.(*ast.UnaryExpr); ok && u.Op == token.NOT {
								e, polarity = ast.Unparen(u.X), !polarity
							}
							kk, isEq, ok := nilTestOf(e)
							if !ok || kk != k {
								return false
							}
							return isEq == polarity // (X == nil) true edge, or (X != nil) false edge
						}
						// assignments to X anywhere in the function disable the check for that X (flow-insensitive escape)
						reassigned := false
						aliases := map[string]bool{}
						ast.Inspect(body, func(n ast.Node) bool {
							if l, ok := n.(*ast.FuncLit); ok && ast.Node(l) != fn {
								return false
							}
							if as, ok := n.(*ast.AssignStmt); ok {
								for i, l := range as.Lhs {
									if pathKey(info, l) == k && as.Tok != token.DEFINE {
										// clearing the value (X = nil) does not make it usable
										clears := false
										if i < len(as.Rhs) {
											if id, ok := ast.Unparen(as.Rhs[i]).(*ast.Ident); ok {
												_, clears = info.Uses[id].(*types.Nil)
											}
										}
										if !clears {
											reassigned = true
										}
									}
									// a local copy taken on the nil edge is nil too
									if i < len(as.Rhs) && pathKey(info, as.Rhs[i]) == k {
										if ak := pathKey(info, l); ak != "" && ak != k && guardedByEdge(body, as, isNilEdge) {
											aliases[ak] = true
										}
									}
								}
							}
							return true
						})
						if reassigned {
							continue
						}
						for ak := range aliases {
							ast.Inspect(body, func(n ast.Node) bool {
								var base ast.Expr
								switch x := n.(type) {
								case *ast.SelectorExpr:
									base = x.X
								case *ast.CallExpr:
									base = x.Fun
								default:
									return true
								}
								if pathKey(info, base) == ak {
									cnt++
									c.Report(armed, fmt.Sprintf("%s/nil-use#%d", fkey, cnt), n.Pos(), "this use goes through a local copy that was taken on the branch where the nil test says the value is nil: the guard is inverted and the use dereferences nil")
									return false
								}
								return true
							})
						}
						ast.Inspect(body, func(n ast.Node) bool {
							if l, ok := n.(*ast.FuncLit); ok && ast.Node(l) != fn {
								return false
							}
							var base ast.Expr
							switch x := n.(type) {
							case *ast.SelectorExpr:
								base = x.X
							case *ast.CallExpr:
								base = x.Fun
							default:
								return true
							}
							if pathKey(info, base) != k {
								return true
							}
							// a selector that is itself the operand of the nil test is not a use
							if guardedByEdge(body, n, isNilEdge) {
								cnt++
								c.Report(armed, fmt.Sprintf("%s/nil-use#%d", fkey, cnt), n.Pos(), "this use is reached only on the branch where the nil test says the value is nil: the guard is inverted and the use dereferences nil")
							}
							return true
						})
					}
					if cnt == 0 && armed {
						c.OK(fkey+"/nil-guards", fn.Pos(), "no use of a nil-tested value on its nil branch")
					}
				}
			}
		},
	}
}

// pathKey renders an identifier or a selector path rooted at an identifier (a.b.c) as an object-based key.
func pathKey(info *types.Info, e ast.Expr) string {
	switch x := ast.Unparen(e).(type) {
	case *ast.Ident:
		o := info.Uses[x]
		if o == nil {
			o = info.Defs[x]
		}
		if v, ok := o.(*types.Var); ok {
			return fmt.Sprintf("%s@%d", v.Name(), v.Pos())
		}
	case *ast.SelectorExpr:
		if s, ok := info.Selections[x]; ok && s.Kind() == types.FieldVal {
			if b := pathKey(info, x.X); b != "" {
				return b + "." + x.Sel.Name
			}
		}
	}
	return ""
}

const controlsNilGuard = `
type verifControlNilGuard struct {
	next func(int)
}

func (v *verifControlNilGuard) emit(x int) {
	if v.next == nil {
		v.next(x)
	}
}
`

// ruleNilableCallbackGuarded: sibling consistency for function-typed fields that some method believes may be nil.
func ruleNilableCallbackGuarded() check.Rule {
	return check.Rule{
		Name:        "NILABLE-CALLBACK-GUARDED",
		Doc:         "belief rule: when a method of a type tests a function-typed field of its receiver against nil (the constructors store whatever callback the user passed, nil included), every call through that field in the methods of the type is dominated by the non-nil edge of such a test — in the calling method itself, or, for an unexported helper method, at every call site of the helper in the methods of the type (followed three levels up). A callback invoked without the test turns a notification the observer does not listen to into a nil-function panic inside the delivery path: the dropped-notification hook is not called and a spurious error is delivered instead",
		NeedControl: true,
		Run: func(c *check.Ctx) {
			m := c.M
			for _, p := range m.Pkgs {
				armed := c.ArmedPkg(p.PkgPath)
				info := p.TypesInfo
				// methods by receiver type name
				methods := map[string][]*ast.FuncDecl{}
				for _, f := range p.Syntax {
					for _, d := range f.Decls {
						if fd, ok := d.(*ast.FuncDecl); ok && fd.Body != nil && fd.Recv != nil && len(fd.Recv.List) == 1 {
							methods[load.RecvTypeName(fd.Recv.List[0].Type)] = append(methods[load.RecvTypeName(fd.Recv.List[0].Type)], fd)
						}
					}
				}
				var tnames []string
				for tn := range methods {
					tnames = append(tnames, tn)
				}
				sort.Strings(tnames)
				for _, tn := range tnames {
					ms := methods[tn]
					recvOf := func(fd *ast.FuncDecl) types.Object {
						if len(fd.Recv.List[0].Names) == 1 {
							return info.Defs[fd.Recv.List[0].Names[0]]
						}
						return nil
					}
					// field name of `recv.F` when e is such a selector of a function-typed field
					fieldOf := func(fd *ast.FuncDecl, e ast.Expr) string {
						sel, ok := ast.Unparen(e).(*ast.SelectorExpr)
						if !ok {
							return ""
						}
						id, ok := ast.Unparen(sel.X).(*ast.Ident)
						if !ok || recvOf(fd) == nil || objOf(info, id) != recvOf(fd) {
							return ""
						}
						s, ok := info.Selections[sel]
						if !ok || s.Kind() != types.FieldVal {
							return ""
						}
						if _, isFunc := s.Type().Underlying().(*types.Signature); !isFunc {
							return ""
						}
						return sel.Sel.Name
					}
					nilTestField := func(fd *ast.FuncDecl, e ast.Expr) (string, bool) { // field, isEq
						be, ok := ast.Unparen(e).(*ast.BinaryExpr)
						if !ok || (be.Op != token.EQL && be.Op != token.NEQ) {
							return "", false
						}
						isNil := func(x ast.Expr) bool {
							id, ok := ast.Unparen(x).(*ast.Ident)
							if !ok {
								return false
							}
							_, n := info.Uses[id].(*types.Nil)
							return n
						}
						switch {
						case isNil(be.Y):
							return fieldOf(fd, be.X), be.Op == token.EQL
						case isNil(be.X):
							return fieldOf(fd, be.Y), be.Op == token.EQL
						}
						return "", false
					}
					believed := map[string]bool{}
					for _, fd := range ms {
						ast.Inspect(fd.Body, func(n ast.Node) bool {
							if e, ok := n.(ast.Expr); ok {
								if f, _ := nilTestField(fd, e); f != "" {
									believed[f] = true
								}
							}
							return true
						})
					}
					if len(believed) == 0 {
						continue
					}
					byName := map[string]*ast.FuncDecl{}
					for _, fd := range ms {
						byName[fd.Name.Name] = fd
					}
					// is target (inside fd) dominated by the non-nil edge of a test of recv.field?
					guardedIn := func(fd *ast.FuncDecl, target ast.Node, field string) bool {
						atom := func(e ast.Expr) int {
							f, isEq := nilTestField(fd, e)
							if f != field {
								return 0
							}
							if isEq {
								return -1
							}
							return +1
						}
						// innermost enclosing function literal first, then outwards
						chain := m.EnclosingFuncs(p, target)
						for i := len(chain) - 1; i >= 0; i-- {
							if guardedBy(funcBody(chain[i]), target, atom) {
								return true
							}
							target = chain[i]
						}
						return false
					}
					var guarded func(fd *ast.FuncDecl, target ast.Node, field string, depth int) bool
					guarded = func(fd *ast.FuncDecl, target ast.Node, field string, depth int) bool {
						if guardedIn(fd, target, field) {
							return true
						}
						if fd.Name.IsExported() || depth >= 3 {
							return false
						}
						// every call site of this unexported helper in the methods of the type
						sites := 0
						ok := true
						for _, caller := range ms {
							ast.Inspect(caller.Body, func(n ast.Node) bool {
								call, isCall := n.(*ast.CallExpr)
								if !isCall {
									return true
								}
								sel, isSel := ast.Unparen(call.Fun).(*ast.SelectorExpr)
								if !isSel || sel.Sel.Name != fd.Name.Name {
									return true
								}
								if id, isId := ast.Unparen(sel.X).(*ast.Ident); !isId || recvOf(caller) == nil || objOf(info, id) != recvOf(caller) {
									return true
								}
								sites++
								if !guarded(caller, call, field, depth+1) {
									ok = false
								}
								return true
							})
						}
						return ok && sites > 0
					}
					for _, fd := range ms {
						n := 0
						ast.Inspect(fd.Body, func(x ast.Node) bool {
							call, ok := x.(*ast.CallExpr)
							if !ok {
								return true
							}
							f := fieldOf(fd, call.Fun)
							if f == "" || !believed[f] {
								return true
							}
							n++
							key := fmt.Sprintf("%s.%s.%s/call-%s#%d", model.ShortPkg(p.PkgPath), tn, fd.Name.Name, f, n)
							c.Inc("nilable_callback_calls", 1)
							if guarded(fd, call, f, 0) {
								if armed {
									c.OK(key, call.Pos(), "the call through "+f+" is reached only where a test says the field is not nil")
								}
							} else {
								c.Report(armed, key, call.Pos(), "the callback field %s is tested against nil elsewhere in %s's methods, but this call is reachable without such a test (neither here nor at every call site of %s): a nil callback panics inside the delivery path instead of the notification being dropped through the hook", f, tn, fd.Name.Name)
							}
							return true
						})
					}
				}
			}
		},
	}
}

const controlsNilableCallback = `
type verifControlNilable struct {
	onNext  func(int)
	onError func(error)
}

func (v *verifControlNilable) Next(x int) {
	v.tryNext(x)
}

func (v *verifControlNilable) Error(err error) {
	if v.onError == nil || v.onNext == nil {
		return
	}
	v.onError(err)
}

func (v *verifControlNilable) tryNext(x int) {
	v.onNext(x)
}
`

package rules

import (
	"fmt"
	"go/ast"
	"go/token"
	"go/types"
	"strings"

	"golang.org/x/tools/go/packages"

	"golang.org/x/tools/go/cfg"

	"rocheck/internal/check"
	"rocheck/internal/load"
	"rocheck/internal/model"
)

// releaseExempt: acquisitions whose owner deliberately outlives one subscription.
var releaseExempt = map[string]string{
	"ro.ShareWithConfig": "the upstream subscription is owned by the shared connection (sourceSubscription) and released by reset() under the reference count; checked by the C11 rules",
	"ro.Delay/timer":     "pending time.AfterFunc callbacks find the queue emptied by the teardown and return without emitting",
}

// resNode renders the graph node of a subscription-valued expression.
func resNode(info *types.Info, av *model.AV, e ast.Expr) string {
	if av != nil {
		switch av.Kind {
		case model.AVSub:
			return fmt.Sprintf("site#%d", av.Site.ID)
		case model.AVComposite:
			return fmt.Sprintf("comp@%d", av.Expr.Pos())
		}
	}
	if e == nil {
		return ""
	}
	if id, _ := rootIdent(e); id != nil {
		if o := objOf(info, id); o != nil {
			return fmt.Sprintf("var@%d", o.Pos())
		}
	}
	return ""
}

func teardownOf(c *model.Ctx) *model.Ctx {
	for ; c != nil; c = c.Parent {
		if c.Kind == model.KTeardown {
			return c
		}
	}
	return nil
}

// releaseAnalysis computes which resources of an SC are released by its teardown chain.
type releaseAnalysis struct {
	released map[string]bool
	edges    map[string][]string // from -> to (from is released when to is)
	actions  map[*model.Ctx][]string
	owner    map[*model.Ctx]string // teardown ctx -> owner node ("ROOT" for the SC's own teardown)
	why      map[string]string
	// conditional: resource node -> why a release action in the teardown was not counted
	conditional map[string]string
}

func analyseRelease(m *model.Model, sc *model.SC) *releaseAnalysis {
	ra := &releaseAnalysis{released: map[string]bool{}, edges: map[string][]string{}, actions: map[*model.Ctx][]string{}, owner: map[*model.Ctx]string{}, why: map[string]string{}, conditional: map[string]string{}}
	info := func(p *packages.Package) *types.Info { return p.TypesInfo }
	litOwner := map[*ast.FuncLit]string{}
	for _, op := range sc.SubOps {
		switch op.Method {
		case "AddUnsubscribable":
			from := resNode(info(op.Pkg), op.Arg, op.ArgExpr)
			to := resNode(info(op.Pkg), op.Recv, op.RecvExpr)
			if from != "" && to != "" {
				ra.edges[from] = append(ra.edges[from], to)
			}
		case "Add":
			to := resNode(info(op.Pkg), op.Recv, op.RecvExpr)
			if op.Arg != nil {
				switch op.Arg.Kind {
				case model.AVMethodVal:
					// Add(x.Unsubscribe), and the releasing method values of timers / closers: Add(ticker.Stop), Add(w.Close)
					if op.Arg.Method != nil && (op.Arg.Method.Name() == "Unsubscribe" || op.Arg.Method.Name() == "Stop" || op.Arg.Method.Name() == "Close") {
						from := resNode(info(op.Pkg), op.Arg.Recv, recvExprOfSel(op.Arg.Expr))
						if from != "" && to != "" {
							ra.edges[from] = append(ra.edges[from], to)
						}
					}
				case model.AVFunc:
					if op.Arg.Lit != nil && to != "" {
						litOwner[op.Arg.Lit] = to
					}
				}
			}
			if sel, ok := ast.Unparen(op.ArgExpr).(*ast.SelectorExpr); ok && (op.Arg == nil || op.Arg.Kind != model.AVMethodVal) && (sel.Sel.Name == "Stop" || sel.Sel.Name == "Close") {
				if from := resNode(info(op.Pkg), nil, sel.X); from != "" && to != "" {
					ra.edges[from] = append(ra.edges[from], to)
				}
			}
		}
	}
	for _, st := range sc.Stores {
		from := resNode(info(st.Pkg), st.Val, nil)
		to := resNode(info(st.Pkg), nil, st.LHS)
		if from != "" && to != "" && from != to {
			// storing a subscription into a variable/element: releasing the holder releases it,
			// and (for plain variables) the variable is an alias of the subscription
			ra.edges[from] = append(ra.edges[from], to)
		}
	}
	for _, c := range sc.Ctxs {
		if c.Kind != model.KTeardown {
			continue
		}
		switch {
		case c.Root:
			ra.owner[c] = "ROOT"
		case c.OwnerLit != nil:
			ra.owner[c] = litOwner[c.OwnerLit]
		case c.OwnerAV != nil || c.OwnerExpr != nil:
			// the package of the owner expression is that of the creating node; use the SC package
			ra.owner[c] = resNode(sc.Pkg.TypesInfo, c.OwnerAV, c.OwnerExpr)
		}
	}
	// release actions inside teardown contexts; they count only when they execute on every
	// path of the teardown (and of each closure on the way to them)
	for _, op := range sc.SubOps {
		t := teardownOf(op.Ctx)
		if t == nil {
			continue
		}
		switch op.Method {
		case "Unsubscribe", "Stop", "close":
			n := resNode(info(op.Pkg), op.Recv, op.RecvExpr)
			if n == "" {
				continue
			}
			if why := conditionalInTeardown(m, op); why != "" {
				ra.conditional[n] = why
				continue
			}
			ra.actions[t] = append(ra.actions[t], n)
		}
	}
	// teardown values that are method values x.Unsubscribe
	for _, tr := range sc.Teardowns {
		if tr.Val != nil && tr.Val.Kind == model.AVMethodVal && tr.Val.Method != nil && tr.Val.Method.Name() == "Unsubscribe" {
			n := resNode(info(tr.Pkg), tr.Val.Recv, recvExprOfSel(tr.Val.Expr))
			if n == "" {
				continue
			}
			if tr.Depth == 0 || tr.Ctx.Kind == model.KBody && len(tr.Stack) == 0 {
				ra.mark(n, "returned as the teardown")
			}
		}
	}
	// fixpoint
	for changed := true; changed; {
		changed = false
		for t, acts := range ra.actions {
			o := ra.owner[t]
			if o == "ROOT" || ra.released[o] {
				for _, n := range acts {
					if !ra.released[n] {
						ra.mark(n, "released by the teardown")
						changed = true
					}
				}
			}
		}
		for from, tos := range ra.edges {
			if ra.released[from] {
				continue
			}
			for _, to := range tos {
				if ra.released[to] {
					ra.mark(from, "handed to a released subscription")
					changed = true
					break
				}
			}
		}
		// aliases: a variable holding a subscription is released iff the subscription is
		for from, tos := range ra.edges {
			if !ra.released[from] || !strings.HasPrefix(from, "site#") {
				continue
			}
			_ = tos
		}
	}
	return ra
}

// conditionalInTeardown: the release call, or one of the calls on the inlining chain that
// leads to it from the teardown's entry function, can be skipped by a path of its function
// (early return, branch). Loops and deferred calls are accepted.
func conditionalInTeardown(m *model.Model, op *model.SubOp) string {
	nodes := []ast.Node{op.Call}
	for i := len(op.Stack) - 1; i >= 0; i-- {
		nodes = append(nodes, op.Stack[i])
	}
	for _, n := range nodes {
		fn := innermostFunc(m, op.Pkg, n)
		if fn == nil {
			continue
		}
		// deferred calls always run
		deferred := false
		inLoop := false
		for c := n; c != nil && c != fn; c = m.Parent(op.Pkg, c) {
			switch m.Parent(op.Pkg, c).(type) {
			case *ast.DeferStmt:
				deferred = true
			case *ast.ForStmt, *ast.RangeStmt:
				inLoop = true
			}
		}
		if deferred || inLoop {
			continue
		}
		if !mustPass(funcBody(fn), n) {
			return fmt.Sprintf("the call at %s is skipped on some path of its function (early return or branch)", m.Prog.Rel(n.Pos()))
		}
		// stop climbing once we reached the function that is the teardown's entry
		if t := teardownOf(op.Ctx); t != nil {
			if lit, ok := fn.(*ast.FuncLit); ok {
				if tn, ok := t.Node.(*ast.ReturnStmt); ok && len(tn.Results) == 1 && ast.Unparen(tn.Results[0]) == ast.Expr(lit) {
					break
				}
			}
		}
	}
	return ""
}

func (ra *releaseAnalysis) mark(n, why string) {
	if !ra.released[n] {
		ra.released[n] = true
		ra.why[n] = why
	}
}

func recvExprOfSel(e ast.Expr) ast.Expr {
	if e == nil {
		return nil
	}
	if sel, ok := ast.Unparen(e).(*ast.SelectorExpr); ok {
		return sel.X
	}
	return nil
}

func ruleRelease() check.Rule {
	return check.Rule{
		Name:        "RELEASE",
		Doc:         "every upstream subscription, timer and looping/blocking goroutine created by a subscribe closure is released by its teardown chain: unsubscribed/stopped/closed by the returned teardown (or a teardown added to a released subscription), handed to a released composite, or awaited before the closure continues",
		NeedControl: true,
		Run: func(c *check.Ctx) {
			m := c.M
			for _, sc := range m.SCs {
				armed := c.Armed(sc)
				ra := analyseRelease(m, sc)
				exemptSC, isExempt := releaseExempt[sc.String()]
				// subscriptions
				for _, s := range sc.SubSites {
					c.Inc("acquisitions", 1)
					key := s.Key + "/release"
					node := fmt.Sprintf("site#%d", s.ID)
					switch {
					case ra.released[node]:
						if dropped, at := droppedOnSomePath(m, s); dropped {
							c.Report(armed, key, s.Pos, "the subscription returned by this %s is released on some paths only: on a path that ends at %s its variable is never stored, handed over, released or captured, so on that path nothing can unsubscribe this source later", s.Method, c.Prog.Rel(at))
						} else if armed {
							c.OK(key, s.Pos, "%s", ra.why[node])
						}
					case s.Src.Awaited:
						if armed {
							c.OK(key, s.Pos, "awaited before the subscribe closure continues (closed when Wait returns)")
						}
					case isExempt:
						if armed {
							c.OK(key, s.Pos, "exempt: %s", exemptSC)
						}
					default:
						extra := ""
						for n, why := range ra.conditional {
							extra += fmt.Sprintf("; a release of %s exists but %s", n, why)
						}
						c.Report(armed, key, s.Pos, "the subscription returned by this %s is not released by the operator's teardown on every path (not unsubscribed, not added to a subscription the teardown unsubscribes, not awaited)%s: unsubscribing downstream leaves this source subscribed", s.Method, extra)
					}
				}
				// timers
				for i, t := range sc.Timers {
					c.Inc("acquisitions", 1)
					key := fmt.Sprintf("%s/timer#%d/release", sc, i+1)
					// result variable
					node := ""
					if as, ok := m.Parent(t.Pkg, t.Call).(*ast.AssignStmt); ok && len(as.Lhs) == 1 {
						node = resNode(t.Pkg.TypesInfo, nil, as.Lhs[0])
					}
					switch {
					case node != "" && ra.released[node]:
						if armed {
							c.OK(key, t.Pos, "time.%s: stopped by the teardown", t.Fn)
						}
					case t.Fn == "NewTimer" && timerConsumedInPlace(m, sc, t):
						if armed {
							c.OK(key, t.Pos, "time.NewTimer: received from in a select of the same context, which also watches the subscriber context; fires at most once")
						}
					case releaseExempt[sc.String()+"/timer"] != "":
						if armed {
							c.OK(key, t.Pos, "exempt: %s", releaseExempt[sc.String()+"/timer"])
						}
					default:
						c.Report(armed, key, t.Pos, "time.%s is never stopped by the operator's teardown: it keeps firing (or holds its callback) after unsubscription", t.Fn)
					}
				}
				// goroutines
				for i, g := range sc.Gos {
					c.Inc("acquisitions", 1)
					key := fmt.Sprintf("%s/go#%d/release", sc, i+1)
					var blocking []*model.BlockSite
					for _, b := range sc.Blocks {
						if b.Ctx == g.Body && b.What != "sleep" {
							blocking = append(blocking, b)
						}
					}
					if len(blocking) == 0 {
						if armed {
							c.OK(key, g.Pos, "goroutine neither loops nor blocks on a channel: it ends by itself")
						}
						continue
					}
					signalled := false
					for _, b := range blocking {
						var chans []ast.Expr
						chans = append(chans, b.Chans...)
						if b.Expr != nil {
							chans = append(chans, b.Expr)
						}
						for _, ch := range chans {
							if n := resNode(b.Pkg.TypesInfo, nil, ch); n != "" && ra.released[n] {
								signalled = true
							}
							// the goroutine body was moved into a helper: the channel is one of its parameters
							if ce, cp := exprThroughInlining(m, b.Pkg, ch, b.Stack); ce != ch {
								if n := resNode(cp.TypesInfo, nil, ce); n != "" && ra.released[n] {
									signalled = true
								}
							}
							// trusted: Close()/Stop() of an object of a type defined outside the repository closes (or stops
							// feeding and closes) the channels that object exposes as fields (fsnotify.Watcher, time.Ticker …)
							if sel, ok := ast.Unparen(ch).(*ast.SelectorExpr); ok {
								if id, ok := ast.Unparen(sel.X).(*ast.Ident); ok {
									if o := objOf(b.Pkg.TypesInfo, id); o != nil && externalCloserIn(m, sc, o) {
										signalled = true
									}
								}
							}
						}
					}
					if signalled {
						if armed {
							c.OK(key, g.Pos, "goroutine waits on a channel that the teardown closes")
						}
					} else {
						c.Report(armed, key, g.Pos, "goroutine loops or blocks (%s at %s) and none of the channels it waits on is closed by the operator's teardown: it is left blocked or looping after unsubscription", blocking[0].What, c.Prog.Rel(blocking[0].Pos))
					}
				}
				// every return of the subscribe closure that can be reached after an un-awaited acquisition returns a teardown
				for _, tr := range sc.Teardowns {
					if tr.Val == nil || tr.Val.Kind != model.AVNil || tr.Ctx == nil || tr.Ctx.Kind != model.KBody || len(tr.Stack) > 0 || tr.Expr == nil {
						continue
					}
					if innermostFunc(m, tr.Pkg, tr.Expr) != ast.Node(sc.Lit) {
						continue
					}
					for _, s := range sc.SubSites {
						if s.Ctx == nil || s.Ctx.Kind != model.KBody || len(s.Stack) > 0 || (s.Src != nil && s.Src.Awaited) || s.Pos > tr.Pos {
							continue
						}
						if innermostFunc(m, s.Pkg, s.Call) != ast.Node(sc.Lit) {
							continue
						}
						if _, isExempt := releaseExempt[sc.String()]; isExempt {
							continue
						}
						if reachableAfter(sc.Lit.Body, s.Call, tr.Expr) {
							c.Report(armed, s.Key+"/release-on-early-return", tr.Pos, "this return hands back a nil teardown although the subscription taken at %s is live on the path to it: when the subscribe function leaves here nothing can unsubscribe that source", c.Prog.Rel(s.Pos))
						}
					}
				}
				// teardown presence: an SC that acquires something un-awaited must return a teardown
				if armed && len(sc.Teardowns) == 0 {
					c.Undecided(sc.String()+"/teardown", sc.Lit.Pos(), "no return statement with a Teardown value found in the subscribe closure")
				}
			}
			unknownsFailClosed(c)
		},
	}
}

// droppedOnSomePath: the result of subscribe site s is bound to a variable local to the enclosing function; reports a
// path from that binding to the function's exit (or back to the binding, in a loop) on which the variable is never
// mentioned again outside branch conditions: on that path the subscription is neither stored, handed over, released
// nor captured, so nothing can release it later.
func droppedOnSomePath(m *model.Model, s *model.SubSite) (bool, token.Pos) {
	p := s.Pkg
	info := p.TypesInfo
	as, ok := m.Parent(p, s.Call).(*ast.AssignStmt)
	if !ok || len(as.Lhs) != 1 || len(as.Rhs) != 1 || ast.Unparen(as.Rhs[0]) != ast.Expr(s.Call) {
		return false, token.NoPos
	}
	id, ok := as.Lhs[0].(*ast.Ident)
	if !ok || id.Name == "_" {
		return false, token.NoPos
	}
	v := objOf(info, id)
	fn := innermostFunc(m, p, s.Call)
	body := funcBody(fn)
	if v == nil || body == nil || !(body.Pos() <= v.Pos() && v.Pos() <= body.End()) {
		return false, token.NoPos // a variable of an outer function outlives this path: it is a holder
	}
	mentions := func(n ast.Node) bool {
		found := false
		ast.Inspect(n, func(x ast.Node) bool {
			if xid, ok := x.(*ast.Ident); ok && objOf(info, xid) == v {
				found = true
			}
			return !found
		})
		return found
	}
	g := cfg.New(body, func(*ast.CallExpr) bool { return true })
	var tb *cfg.Block
	ti := -1
	for _, b := range g.Blocks {
		for i, n := range b.Nodes {
			if n == ast.Node(as) {
				tb, ti = b, i
			}
		}
	}
	if tb == nil {
		return false, token.NoPos
	}
	seen := map[int32]bool{}
	var leak token.Pos
	var dfs func(b *cfg.Block, from int)
	dfs = func(b *cfg.Block, from int) {
		if leak != token.NoPos {
			return
		}
		for i := from; i < len(b.Nodes); i++ {
			n := b.Nodes[i]
			if b == tb && i == ti {
				leak = n.Pos() // back at the binding: the previous value is overwritten
				return
			}
			_, isCond := n.(ast.Expr)
			if isCond && i == len(b.Nodes)-1 && len(b.Succs) == 2 {
				continue // a branch condition is not a hand-over
			}
			if mentions(n) {
				return
			}
		}
		if len(b.Succs) == 0 {
			if len(b.Nodes) > 0 {
				if es, ok := b.Nodes[len(b.Nodes)-1].(*ast.ExprStmt); ok {
					if call, ok := es.X.(*ast.CallExpr); ok {
						if fid, ok := call.Fun.(*ast.Ident); ok && fid.Name == "panic" {
							return
						}
					}
				}
				leak = b.Nodes[len(b.Nodes)-1].Pos()
			} else {
				leak = body.End()
			}
			return
		}
		for _, sc := range b.Succs {
			if sc == tb {
				// re-entering the binding's block from its start
				if !seen[-sc.Index-1] {
					seen[-sc.Index-1] = true
					dfs(sc, 0)
				}
				continue
			}
			if !seen[sc.Index] {
				seen[sc.Index] = true
				dfs(sc, 0)
			}
		}
	}
	dfs(tb, ti+1)
	return leak != token.NoPos, leak
}

// timerConsumedInPlace: the timer's channel is a case of a select located in the same
// context as the NewTimer call.
func timerConsumedInPlace(m *model.Model, sc *model.SC, t *model.TimerSite) bool {
	as, ok := m.Parent(t.Pkg, t.Call).(*ast.AssignStmt)
	if !ok || len(as.Lhs) != 1 {
		return false
	}
	id, _ := as.Lhs[0].(*ast.Ident)
	tv := objOf(t.Pkg.TypesInfo, id)
	if tv == nil {
		return false
	}
	for _, b := range sc.Blocks {
		if b.What != "select" || b.Ctx != t.Ctx {
			continue
		}
		for _, ch := range b.Chans {
			if rid, _ := rootIdent(ch); rid != nil && objOf(b.Pkg.TypesInfo, rid) == tv {
				return true
			}
		}
	}
	return false
}

// SELF-UNSUBSCRIBE + TERMINAL-BEFORE-CLOSE (shared with C06): in subscriberImpl's terminal
// methods every path delivers (or drops) first, releases the producer lock, then runs the
// finalizers.
func ruleSelfUnsubscribe() check.Rule {
	return check.Rule{
		Name: "SELF-UNSUBSCRIBE",
		Doc:  "subscriberImpl.ErrorWithContext/CompleteWithContext run the subscription's finalizers on every path, after the terminal notification was delivered and after the producer lock was released (a finalizer that re-enters the subscriber must not deadlock)",
		Run: func(c *check.Ctx) {
			m := c.M
			p := m.Obj.Ro
			info := p.TypesInfo
			h := newHeldDB(m)
			for _, name := range []string{"ErrorWithContext", "CompleteWithContext"} {
				fd := load.FuncDeclOf(p, "subscriberImpl."+name)
				key := "ro.subscriberImpl." + name
				if fd == nil {
					c.Undecided(key, p.Syntax[0].Pos(), "anchor not found")
					continue
				}
				rv := recvObj(info, fd)
				// the self-unsubscribe call: a call on the receiver that reaches Subscription.Unsubscribe
				var unsubCalls []*ast.CallExpr
				var deliver []*ast.CallExpr
				ast.Inspect(fd.Body, func(n ast.Node) bool {
					call, ok := n.(*ast.CallExpr)
					if !ok {
						return true
					}
					if reachesUnsubscribe(m, p, call, rv, 0) {
						unsubCalls = append(unsubCalls, call)
					}
					if sel, ok := ast.Unparen(call.Fun).(*ast.SelectorExpr); ok {
						if inner, ok := ast.Unparen(sel.X).(*ast.SelectorExpr); ok && fieldSelOf(info, inner, rv) != nil && inner.Sel.Name == "destination" {
							deliver = append(deliver, call)
						}
					}
					return true
				})
				if len(unsubCalls) == 0 {
					c.Violation(key+"/self-unsubscribe", fd.Pos(), "the terminal method never runs the subscription's finalizers: upstream sources are not released when the stream ends by itself")
					continue
				}
				// every exit is preceded by an unsubscribe call: the call must be a top-level statement of the body
				// located after all deliveries, and not inside a conditional
				top := false
				for _, s := range fd.Body.List {
					// the deferred form: `defer s.unsubscribe()` as a direct statement of the body, before any return. It runs
					// at every exit (panics included), after the body — hence after every delivery — and with the locks that
					// are still held when the deferred calls registered after it have run (h.heldNorm on a deferred call)
					if ds, ok := s.(*ast.DeferStmt); ok {
						for _, uc := range unsubCalls {
							if ds.Call != uc {
								continue
							}
							top = true
							held := h.heldNorm(p, uc)
							if len(held) > 0 {
								c.Violation(key+"/unlock-before-finalizers", uc.Pos(), "the deferred finalizers run while %s is still held (the deferred Unlock is registered before them and therefore runs after them): a teardown that re-enters the subscriber deadlocks", held)
							} else {
								c.OK(key+"/unlock-before-finalizers", uc.Pos(), "the deferred finalizers run after the producer lock was released")
							}
						}
					}
					if es, ok := s.(*ast.ExprStmt); ok {
						for _, uc := range unsubCalls {
							if ast.Unparen(es.X) == ast.Expr(uc) {
								top = true
								for _, d := range deliver {
									if d.Pos() > uc.Pos() {
										c.Violation(key+"/terminal-before-close", d.Pos(), "the terminal notification is delivered after the subscription was closed")
									}
								}
								held := h.heldNorm(p, uc)
								if len(held) > 0 {
									c.Violation(key+"/unlock-before-finalizers", uc.Pos(), "finalizers run while %s is held: a teardown that re-enters the subscriber deadlocks", held)
								} else {
									c.OK(key+"/unlock-before-finalizers", uc.Pos(), "finalizers run after the producer lock was released")
								}
							}
						}
					}
				}
				// no return statement before the unsubscribe call
				early := false
				ast.Inspect(fd.Body, func(n ast.Node) bool {
					if _, ok := n.(*ast.FuncLit); ok {
						return false
					}
					if r, ok := n.(*ast.ReturnStmt); ok {
						for _, uc := range unsubCalls {
							if r.Pos() < uc.Pos() {
								early = true
							}
						}
					}
					if pn, ok := n.(*ast.CallExpr); ok && !early {
						// a delivery before the defer statement was reached is not covered by it... the defer covers every
						// exit after its own position only
						_ = pn
					}
					return true
				})
				if top && !early {
					c.OK(key+"/self-unsubscribe", unsubCalls[0].Pos(), "unconditional last step of the method: every path runs the finalizers")
					c.OK(key+"/terminal-before-close", unsubCalls[0].Pos(), "%d delivery call(s), all before the self-unsubscribe", len(deliver))
				} else {
					c.Violation(key+"/self-unsubscribe", unsubCalls[0].Pos(), "the self-unsubscribe is conditional or can be skipped by an early return: some terminal paths leave the upstream subscribed")
				}
			}
		},
	}
}

// reachesUnsubscribe: call is recv.unsubscribe()/recv.Unsubscribe()/recv.Subscription.Unsubscribe()
// or a same-type helper whose body contains such a call.
func reachesUnsubscribe(m *model.Model, p *packages.Package, call *ast.CallExpr, rv *types.Var, depth int) bool {
	info := p.TypesInfo
	callee := model.Callee(info, call)
	if callee == nil || depth > 2 {
		return false
	}
	sel, ok := ast.Unparen(call.Fun).(*ast.SelectorExpr)
	if !ok {
		return false
	}
	id, _ := rootIdent(sel.X)
	if id == nil || objOf(info, id) != rv {
		return false
	}
	if name, ok := m.Obj.SubscriptionMethods[callee]; ok && name == "Unsubscribe" {
		return true
	}
	if d := m.Decls[callee]; d != nil && d.Decl.Recv != nil && d.Decl.Body != nil && !ast.IsExported(callee.Name()) {
		rv2 := recvObj(d.Pkg.TypesInfo, d.Decl)
		found := false
		ast.Inspect(d.Decl.Body, func(n ast.Node) bool {
			if c2, ok := n.(*ast.CallExpr); ok && reachesUnsubscribe(m, d.Pkg, c2, rv2, depth+1) {
				found = true
			}
			return true
		})
		return found
	}
	return false
}

// ADD-TEARDOWN: the teardown returned by the subscribe function is added to the subscriber.
func ruleAddTeardown() check.Rule {
	return check.Rule{
		Name: "ADD-TEARDOWN",
		Doc:  "in observableImpl.SubscribeWithContext the value returned by the subscribe function flows into subscription.Add, and the subscriber (not the raw destination) is what the subscribe function receives and what is returned",
		Run: func(c *check.Ctx) {
			m := c.M
			p := m.Obj.Ro
			info := p.TypesInfo
			fd := load.FuncDeclOf(p, "observableImpl.SubscribeWithContext")
			key := "ro.observableImpl.SubscribeWithContext"
			if fd == nil {
				c.Undecided(key, p.Syntax[0].Pos(), "anchor not found")
				return
			}
			rv := recvObj(info, fd)
			added, passesSubscriber := false, false
			var subscriberVar types.Object
			ast.Inspect(fd.Body, func(n ast.Node) bool {
				if as, ok := n.(*ast.AssignStmt); ok && len(as.Rhs) == 1 && len(as.Lhs) == 1 {
					if call, ok := ast.Unparen(as.Rhs[0]).(*ast.CallExpr); ok {
						if _, isCtor := m.Obj.SubscriberCtors[model.Callee(info, call)]; isCtor {
							if id, ok := as.Lhs[0].(*ast.Ident); ok {
								subscriberVar = objOf(info, id)
							}
						}
					}
				}
				return true
			})
			ast.Inspect(fd.Body, func(n ast.Node) bool {
				call, ok := n.(*ast.CallExpr)
				if !ok {
					return true
				}
				callee := model.Callee(info, call)
				if name, ok := m.Obj.SubscriptionMethods[callee]; ok && name == "Add" && len(call.Args) == 1 {
					if inner, ok := ast.Unparen(call.Args[0]).(*ast.CallExpr); ok {
						if s := fieldSelOf(info, inner.Fun, rv); s != nil && s.Sel.Name == "subscribe" {
							if sel, ok := ast.Unparen(call.Fun).(*ast.SelectorExpr); ok {
								if id, _ := rootIdent(sel.X); id != nil && objOf(info, id) == subscriberVar {
									added = true
								}
							}
							for _, a := range inner.Args {
								if id, ok := ast.Unparen(a).(*ast.Ident); ok && objOf(info, id) == subscriberVar && subscriberVar != nil {
									passesSubscriber = true
								}
							}
						}
					}
				}
				return true
			})
			if added {
				c.OK(key+"/add-teardown", fd.Pos(), "subscription.Add(s.subscribe(ctx, subscription))")
			} else {
				c.Violation(key+"/add-teardown", fd.Pos(), "the teardown returned by the subscribe function is not added to the subscriber: upstream resources are never released")
			}
			if passesSubscriber {
				c.OK(key+"/passes-subscriber", fd.Pos(), "the subscribe function receives the subscriber wrapping the destination")
			} else {
				c.Violation(key+"/passes-subscriber", fd.Pos(), "the subscribe function does not receive the subscriber created for this subscription")
			}
		},
	}
}

// FINALIZER-DISCIPLINE on subscriptionImpl.
func ruleFinalizerDiscipline() check.Rule {
	return check.Rule{
		Name: "FINALIZER-DISCIPLINE",
		Doc:  "subscriptionImpl: done and finalizers are accessed only under the mutex; Unsubscribe returns early when done, swaps the list out under the lock, calls every finalizer through the recovering wrapper outside the lock, and re-panics only after the loop; Add on a done subscription runs the teardown at once",
		Run: func(c *check.Ctx) {
			m := c.M
			p := m.Obj.Ro
			info := p.TypesInfo
			db := newLockDB(m)
			guardedFields(c, db, p, "subscriptionImpl", true)
			h := newHeldDB(m)
			fd := load.FuncDeclOf(p, "subscriptionImpl.Unsubscribe")
			key := "ro.subscriptionImpl.Unsubscribe"
			if fd == nil {
				c.Undecided(key, p.Syntax[0].Pos(), "anchor not found")
				return
			}
			rv := recvObj(info, fd)
			// early return on done
			earlyDone, setsDone := false, false
			var loop *finalizerLoop
			var loopVar types.Object
			ast.Inspect(fd.Body, func(n ast.Node) bool {
				switch x := n.(type) {
				case *ast.IfStmt:
					if s := fieldSelOf(info, x.Cond, rv); s != nil && s.Sel.Name == "done" {
						for _, st := range x.Body.List {
							if _, ok := st.(*ast.ReturnStmt); ok {
								earlyDone = true
							}
						}
					}
				case *ast.AssignStmt:
					for i, l := range x.Lhs {
						if s := fieldSelOf(info, l, rv); s != nil && s.Sel.Name == "done" && i < len(x.Rhs) {
							if tv := info.Types[x.Rhs[i]]; tv.Value != nil && tv.Value.String() == "true" {
								setsDone = true
								if !h.heldNorm(p, x)["recv.mu"] {
									c.Violation(key+"/done-under-lock", x.Pos(), "done is set without the mutex")
								}
							}
						}
					}
				case *ast.RangeStmt:
					if loop == nil {
						loop = &finalizerLoop{Stmt: x, Body: x.Body, Forward: true}
						if id, _ := rootIdent(x.X); id != nil {
							loopVar = objOf(info, id)
						}
					}
				case *ast.ForStmt:
					// the index form: for i := 0; i < len(list); i++ / for i := len(list) - 1; i >= 0; i--
					if loop == nil {
						var listID *ast.Ident
						for _, part := range []ast.Node{x.Init, x.Cond} {
							if part == nil {
								continue
							}
							ast.Inspect(part, func(y ast.Node) bool {
								if call, ok := y.(*ast.CallExpr); ok && len(call.Args) == 1 {
									if fid, ok := ast.Unparen(call.Fun).(*ast.Ident); ok && fid.Name == "len" {
										if id, _ := rootIdent(call.Args[0]); id != nil && listID == nil {
											listID = id
										}
									}
								}
								return true
							})
						}
						if listID != nil {
							fl := &finalizerLoop{Stmt: x, Body: x.Body, Forward: true}
							if post, ok := x.Post.(*ast.IncDecStmt); ok && post.Tok == token.DEC {
								fl.Forward = false
							}
							loop = fl
							loopVar = objOf(info, listID)
						}
					}
				}
				return true
			})
			if earlyDone && setsDone {
				c.OK(key+"/once", fd.Pos(), "returns early when done; sets done under the mutex: one caller runs the finalizers")
			} else {
				c.Violation(key+"/once", fd.Pos(), "Unsubscribe does not (test done and return early=%v, set done=%v): finalizers could run twice", earlyDone, setsDone)
			}
			// the loop may live in a helper the list is handed to (runFinalizers(finalizers)): the loop is the helper's,
			// the list is the argument, and the locks that matter are those held at the call
			var lockProbe ast.Node
			if loop == nil {
				ast.Inspect(fd.Body, func(n ast.Node) bool {
					call, ok := n.(*ast.CallExpr)
					if !ok || loop != nil {
						return loop == nil
					}
					cl := model.Callee(info, call)
					d := m.Decls[cl]
					if cl == nil || d == nil || d.Decl.Body == nil || d.Pkg != p {
						return true
					}
					params := model.FlattenParams(info, d.Decl.Type.Params)
					for ai, a := range call.Args {
						aid, _ := rootIdent(a)
						if aid == nil || ai >= len(params) || params[ai] == nil {
							continue
						}
						if _, isSlice := params[ai].Type().Underlying().(*types.Slice); !isSlice {
							continue
						}
						ast.Inspect(d.Decl.Body, func(y ast.Node) bool {
							if loop != nil {
								return false
							}
							switch x := y.(type) {
							case *ast.RangeStmt:
								if id, _ := rootIdent(x.X); id != nil && objOf(info, id) == types.Object(params[ai]) {
									loop = &finalizerLoop{Stmt: x, Body: x.Body, Forward: true}
								}
							case *ast.ForStmt:
								uses := false
								for _, part := range []ast.Node{x.Init, x.Cond} {
									if part == nil {
										continue
									}
									ast.Inspect(part, func(z ast.Node) bool {
										if id, ok := z.(*ast.Ident); ok && objOf(info, id) == types.Object(params[ai]) {
											uses = true
										}
										return true
									})
								}
								if uses {
									fl := &finalizerLoop{Stmt: x, Body: x.Body, Forward: true}
									if post, ok := x.Post.(*ast.IncDecStmt); ok && post.Tok == token.DEC {
										fl.Forward = false
									}
									loop = fl
								}
							}
							return true
						})
						if loop != nil {
							loopVar = objOf(info, aid)
							lockProbe = call
						}
					}
					return true
				})
			}
			if loop == nil {
				c.Violation(key+"/loop", fd.Pos(), "no loop over the finalizers found")
				return
			}
			// registration order: Wait registers its wake-up as a finalizer, after the teardowns of the attempt it waits for;
			// run in reverse, the waiter is released while those teardowns have not run yet
			if loop.Forward {
				c.OK(key+"/order", loop.Pos(), "finalizers run in registration order")
			} else {
				c.Violation(key+"/order", loop.Pos(), "finalizers run in reverse registration order: the wake-up that Wait() registers last fires before the teardowns registered earlier have run, so whoever waits for an attempt (Retry, Repeat, Concat, DoWhile) starts the next one while this one is not released")
			}
			// the loop iterates a local copy assigned from s.finalizers under the lock
			localCopy := false
			if v, ok := loopVar.(*types.Var); ok && !v.IsField() && v != rv {
				for _, d := range m.Defs[v] {
					if d.Expr != nil {
						if s := fieldSelOf(info, d.Expr, rv); s != nil && s.Sel.Name == "finalizers" && h.heldNorm(p, d.Node)["recv.mu"] {
							localCopy = true
						}
					}
				}
			}
			// the copy is taken before the field is replaced
			copyBeforeReset := true
			if v, ok := loopVar.(*types.Var); ok {
				var copyPos, resetPos token.Pos
				for _, d := range m.Defs[v] {
					if d.Node != nil {
						copyPos = d.Node.Pos()
					}
				}
				ast.Inspect(fd.Body, func(n ast.Node) bool {
					if as, ok := n.(*ast.AssignStmt); ok {
						for _, l := range as.Lhs {
							if s := fieldSelOf(info, l, rv); s != nil && s.Sel.Name == "finalizers" && resetPos == token.NoPos {
								resetPos = as.Pos()
							}
						}
					}
					return true
				})
				if resetPos != token.NoPos && copyPos != token.NoPos && resetPos < copyPos {
					copyBeforeReset = false
				}
			}
			if localCopy && !copyBeforeReset {
				c.Violation(key+"/local-copy", loop.Pos(), "the finalizer list is replaced before the local copy is taken: the loop iterates the empty list and no finalizer ever runs")
			} else if localCopy {
				c.OK(key+"/local-copy", loop.Pos(), "iterates a local copy of the finalizer list taken under the mutex")
			} else {
				c.Violation(key+"/local-copy", loop.Pos(), "the finalizer loop does not iterate a local copy taken under the mutex: a concurrent Add/Unsubscribe can race with it or run finalizers twice")
			}
			if lockProbe == nil {
				lockProbe = loop.Body
			}
			if held := h.heldNorm(p, lockProbe); len(held) > 0 {
				c.Violation(key+"/outside-lock", loop.Pos(), "finalizers run while %s is held: a teardown that calls IsClosed/Add on the same subscription deadlocks", held)
			} else {
				c.OK(key+"/outside-lock", loop.Pos(), "finalizers run outside the mutex")
			}
			// each finalizer value is called through execFinalizer
			direct, wrapped := 0, 0
			ast.Inspect(loop.Body, func(n ast.Node) bool {
				call, ok := n.(*ast.CallExpr)
				if !ok {
					return true
				}
				callee := model.Callee(info, call)
				if callee != nil && callee.Name() == "execFinalizer" {
					wrapped++
					return false
				}
				if callee == nil {
					if t, ok := info.TypeOf(call.Fun).Underlying().(*types.Signature); ok && t.Params().Len() == 0 {
						direct++
					}
				}
				return true
			})
			if wrapped > 0 && direct == 0 {
				c.OK(key+"/recover-wrapper", loop.Pos(), "every finalizer is run through execFinalizer")
			} else {
				c.Violation(key+"/recover-wrapper", loop.Pos(), "a finalizer is called directly (wrapped=%d direct=%d): a panicking teardown stops the others", wrapped, direct)
			}
			// panic only after the loop
			panicOK := true
			// where the loop ends in this function: the loop itself, or the call of the helper that contains it
			loopEnd := loop.End()
			if !(fd.Body.Pos() <= loop.Pos() && loop.End() <= fd.Body.End()) {
				loopEnd = lockProbe.End()
				ast.Inspect(loop.Body, func(n ast.Node) bool {
					if call, ok := n.(*ast.CallExpr); ok {
						if id, ok := call.Fun.(*ast.Ident); ok && id.Name == "panic" {
							panicOK = false
						}
					}
					return true
				})
			}
			ast.Inspect(fd.Body, func(n ast.Node) bool {
				if call, ok := n.(*ast.CallExpr); ok {
					if id, ok := call.Fun.(*ast.Ident); ok && id.Name == "panic" {
						if call.Pos() < loopEnd {
							panicOK = false
						}
					}
				}
				return true
			})
			if panicOK {
				c.OK(key+"/repanic-after-loop", loop.Pos(), "the collected panics are re-raised only after all finalizers ran")
			} else {
				c.Violation(key+"/repanic-after-loop", loop.Pos(), "a panic is raised before all finalizers ran")
			}
			// execFinalizer recovers
			if ef := load.FuncDeclOf(p, "execFinalizer"); ef != nil {
				rec := false
				ast.Inspect(ef.Body, func(n ast.Node) bool {
					if call, ok := n.(*ast.CallExpr); ok {
						cl := model.Callee(info, call)
						if cl != nil && cl.Pkg() != nil && cl.Pkg().Path() == "github.com/samber/lo" && strings.HasPrefix(cl.Name(), "TryCatch") {
							rec = true
						}
						if id, ok := call.Fun.(*ast.Ident); ok && id.Name == "recover" {
							rec = true
						}
					}
					return true
				})
				if rec {
					c.OK("ro.execFinalizer/recovers", ef.Pos(), "runs the finalizer under a recover")
				} else {
					c.Violation("ro.execFinalizer/recovers", ef.Pos(), "execFinalizer does not recover panics")
				}
			} else {
				c.Undecided("ro.execFinalizer/recovers", fd.Pos(), "anchor execFinalizer not found")
			}
			// Add: runs at once when done, appends otherwise, under the lock
			if ad := load.FuncDeclOf(p, "subscriptionImpl.Add"); ad != nil {
				rv2 := recvObj(info, ad)
				runsAtOnce, appends := false, false
				ast.Inspect(ad.Body, func(n ast.Node) bool {
					ifs, ok := n.(*ast.IfStmt)
					if !ok {
						return true
					}
					if s := fieldSelOf(info, ifs.Cond, rv2); s != nil && s.Sel.Name == "done" {
						ast.Inspect(ifs.Body, func(x ast.Node) bool {
							if call, ok := x.(*ast.CallExpr); ok {
								if id, ok := ast.Unparen(call.Fun).(*ast.Ident); ok {
									if v, ok := objOf(info, id).(*types.Var); ok {
										for _, prm := range model.FlattenParams(info, ad.Type.Params) {
											if prm == v {
												runsAtOnce = true
											}
										}
									}
								}
							}
							return true
						})
						if ifs.Else != nil {
							ast.Inspect(ifs.Else, func(x ast.Node) bool {
								if as, ok := x.(*ast.AssignStmt); ok {
									for _, l := range as.Lhs {
										if s := fieldSelOf(info, l, rv2); s != nil && s.Sel.Name == "finalizers" {
											appends = true
										}
									}
								}
								return true
							})
						}
					}
					return true
				})
				if runsAtOnce && appends {
					c.OK("ro.subscriptionImpl.Add/run-at-once", ad.Pos(), "a teardown added after disposal runs immediately, otherwise it is appended")
				} else {
					c.Violation("ro.subscriptionImpl.Add/run-at-once", ad.Pos(), "Add does not (run the teardown at once when done=%v, append otherwise=%v)", runsAtOnce, appends)
				}
			} else {
				c.Undecided("ro.subscriptionImpl.Add/run-at-once", fd.Pos(), "anchor not found")
			}
		},
	}
}

const controlsC03 = `
func verifControlReleaseNil[T any]() func(Observable[T]) Observable[T] {
	return func(source Observable[T]) Observable[T] {
		return NewUnsafeObservableWithContext(func(subscriberCtx context.Context, destination Observer[T]) Teardown {
			source.SubscribeWithContext(subscriberCtx, NewObserverWithContext(
				destination.NextWithContext, destination.ErrorWithContext, destination.CompleteWithContext))
			return nil
		})
	}
}

func verifControlReleaseGoroutine() Observable[int64] {
	return NewObservableWithContext(func(ctx context.Context, destination Observer[int64]) Teardown {
		ticker := time.NewTicker(time.Second)
		go recoverUnhandledError(func() {
			for range ticker.C {
				destination.NextWithContext(ctx, 0)
			}
		})
		return func() {}
	})
}
`

func C03() *check.Property {
	return &check.Property{
		ID:       "C03",
		Title:    "Teardown runs exactly once; closed subscriptions hold nothing upstream",
		Patterns: cat(CorePatterns, PluginPkgs, IOPluginPkgs, []string{PromPkg}, RatePkgs),
		Scope:    append([]string{ro}, IOPluginPkgs...),
		Rules:    []check.Rule{ruleRelease(), ruleSelfUnsubscribe(), ruleAddTeardown(), ruleFinalizerDiscipline(), ruleTeardownAllRun(), ruleStateLevel(), ruleNoEmitUnderTeardownLock(), ruleCoreDelivers(), ruleNilGuardPolarity(), ruleAwaitedRegistered(), ruleSubjectDelivers(), ruleAddAfterClose(), ruleGoLateRegistration(), ruleCancelObserved(), ruleDownstreamLink(), ruleTerminalReleaseAgreement(), ruleExternalAcquireReleased(), rulePositionStable()},
		Explanation: "Static ownership/typestate check. RELEASE builds, per subscribe closure, a resource graph (subscriptions returned by subscribe sites, composite subscriptions, slices of subscriptions, timers, goroutines with their stop channels) " +
			"and proves that every acquisition reaches a node that the operator's teardown chain unsubscribes/stops/closes (teardown closures count only when the subscription they were Add()ed to is itself released), or is awaited. " +
			"SELF-UNSUBSCRIBE, ADD-TEARDOWN and FINALIZER-DISCIPLINE check the three core mechanisms the chain relies on: a subscriber runs its finalizers after every terminal notification (outside the producer lock), the subscribe function's " +
			"teardown is added to the subscriber, and subscriptionImpl runs each finalizer exactly once through a recovering wrapper outside its mutex and re-panics only afterwards.",
		NotDecided:  "exactly-once under races beyond the guarded-by discipline (it follows from done being swapped under the mutex); the timing of goroutine quiescence; resources other than subscriptions, timers, goroutines and channels.",
		Assumptions: []string{"sync.Mutex semantics", "upstream observables honour their own teardown (induction over the pipeline)"},
		Floors:      map[string]int{"acquisitions": 150, "field_accesses": 8, "teardown_closures": 15, "slice_fields_scanned": 10},
		Controls:    map[string]string{"zz_verif_controls_c03.go": roControl(controlsC03 + controlsC03b + controlsCancelObserved + controlsTerminalRelease + controlsExternalAcquire + controlsPositionStable), "zz_verif_controls_c12.go": roControl(controlsC12), "zz_verif_controls_c06.go": roControl(controlsC06), "zz_verif_controls_nilguard.go": roControl(controlsNilGuard), "zz_verif_controls_c05.go": roControl(controlsC05)},
	}
}

// TEARDOWN-ALL-RUN: inside one teardown function, a release that follows a call that can
// panic is deferred.
func ruleTeardownAllRun() check.Rule {
	return check.Rule{
		Name:        "TEARDOWN-ALL-RUN",
		Doc:         "in every teardown closure of an operator, each release action (Unsubscribe of another subscription, timer Stop, channel close, a finalize callback) that comes after a call which can panic (Subscription.Unsubscribe re-raises the panics of the teardowns it ran; user callbacks) is deferred, so a panicking upstream teardown does not stop the remaining releases",
		NeedControl: true,
		Run: func(c *check.Ctx) {
			for _, sc := range c.M.SCs {
				armed := c.Armed(sc)
				type act struct {
					pos      int
					node     ast.Node
					what     string
					canPanic bool
					release  bool
					deferred bool
				}
				byCtx := map[*model.Ctx][]act{}
				for _, op := range sc.SubOps {
					t := teardownOf(op.Ctx)
					if t == nil || op.Ctx != t {
						continue
					}
					switch op.Method {
					case "Unsubscribe":
						// the subscription of a pass-through site is the destination's own subscriber (or a wrapper
						// linked to it, which the destination's finalizers close first): unsubscribing it from the
						// operator's teardown is a no-op and cannot panic
						canPanic := !(op.Recv != nil && op.Recv.Kind == model.AVSub && op.Recv.Site != nil && op.Recv.Site.PassThru)
						if why := teardownPanicExempt[sc.String()+"/"+exprOr(op.RecvExpr, "")]; why != "" {
							canPanic = false
						}
						byCtx[t] = append(byCtx[t], act{int(op.BasePos), op.Call, "Unsubscribe of " + exprOr(op.RecvExpr, "a subscription"), canPanic, true, op.InDefer})
					case "Stop", "close":
						byCtx[t] = append(byCtx[t], act{int(op.BasePos), op.Call, op.Method + " of " + exprOr(op.RecvExpr, "?"), false, true, op.InDefer})
					}
				}
				for _, u := range sc.UserCalls {
					t := teardownOf(u.Ctx)
					if t == nil || u.Ctx != t {
						continue
					}
					byCtx[t] = append(byCtx[t], act{int(u.BasePos), u.Call, "user callback " + u.Param.Name(), true, true, u.InDefer})
				}
				// notifications to other observers from the teardown (GroupBy completes its groups)
				for _, e := range sc.Emits {
					t := teardownOf(e.Ctx)
					if t == nil || e.Ctx != t || e.ToDest {
						continue
					}
					byCtx[t] = append(byCtx[t], act{int(e.BasePos), e.Node, "notification of " + recvName(e), false, true, e.InDefer})
				}
				n := 0
				for t, acts := range byCtx {
					_ = t
					sortActs := acts
					for i := 0; i < len(sortActs); i++ {
						for j := i + 1; j < len(sortActs); j++ {
							if sortActs[j].pos < sortActs[i].pos {
								sortActs[i], sortActs[j] = sortActs[j], sortActs[i]
							}
						}
					}
					c.Inc("teardown_closures", 1)
					var panicky *act
					for i := range sortActs {
						a := &sortActs[i]
						if panicky != nil && a.release && !a.deferred && a.pos > panicky.pos {
							n++
							key := fmt.Sprintf("%s/teardown-release#%d", sc, n)
							c.Report(armed, key, a.node.Pos(), "%s runs after %s, which can panic (it re-raises the panics of the teardowns it ran), and is not deferred: a panicking upstream teardown skips this release", a.what, panicky.what)
						} else if panicky != nil && a.release && a.deferred && a.pos > panicky.pos {
							n++
							key := fmt.Sprintf("%s/teardown-release#%d", sc, n)
							c.Report(armed, key, a.node.Pos(), "%s is deferred, but the defer statement stands after %s, which can panic: when it does, the defer has not been registered yet and this release is skipped", a.what, panicky.what)
						}
						if a.canPanic && !a.deferred && panicky == nil {
							panicky = a
						}
					}
				}
				if n == 0 && armed && len(byCtx) > 0 {
					c.OK(sc.String()+"/teardown-all-run", sc.Lit.Pos(), "every release that follows a call which can panic is deferred (or there is at most one such call, last)")
				}
			}
		},
	}
}

// teardownPanicExempt: Unsubscribe calls in teardowns that cannot panic for a reason the
// structure does not show; one construct each.
var teardownPanicExempt = map[string]string{
	"ro.ZipAll/outerSub": "the outer subscription has completed (and run its teardowns) before any inner subscription exists; while it is still open there is nothing else to release",
}

func exprOr(e ast.Expr, alt string) string {
	if e == nil {
		return alt
	}
	return types.ExprString(e)
}

const controlsC03b = `
func verifControlTeardownSequence[T any](other Observable[T]) func(Observable[T]) Observable[T] {
	return func(source Observable[T]) Observable[T] {
		return NewObservableWithContext(func(subscriberCtx context.Context, destination Observer[T]) Teardown {
			a := source.SubscribeWithContext(subscriberCtx, NewObserverWithContext(
				destination.NextWithContext, destination.ErrorWithContext, destination.CompleteWithContext))
			b := other.SubscribeWithContext(subscriberCtx, NewObserverWithContext(
				destination.NextWithContext, destination.ErrorWithContext, func(ctx context.Context) {}))
			return func() {
				a.Unsubscribe()
				b.Unsubscribe()
			}
		})
	}
}
`

// externalCloserIn: some teardown literal of sc calls Close() or Stop() on the object o, whose type is defined outside
// the repository.
func externalCloserIn(m *model.Model, sc *model.SC, o types.Object) bool {
	t := o.Type()
	if p, ok := t.Underlying().(*types.Pointer); ok {
		t = p.Elem()
	} else if p, ok := t.(*types.Pointer); ok {
		t = p.Elem()
	}
	named, ok := t.(*types.Named)
	if !ok || named.Obj().Pkg() == nil || strings.HasPrefix(named.Obj().Pkg().Path(), ro) {
		return false
	}
	found := false
	for _, tr := range sc.Teardowns {
		if tr.Val == nil || tr.Val.Lit == nil {
			continue
		}
		ast.Inspect(tr.Val.Lit.Body, func(n ast.Node) bool {
			call, ok := n.(*ast.CallExpr)
			if !ok {
				return true
			}
			sel, ok := ast.Unparen(call.Fun).(*ast.SelectorExpr)
			if !ok || (sel.Sel.Name != "Close" && sel.Sel.Name != "Stop") {
				return true
			}
			if id, ok := ast.Unparen(sel.X).(*ast.Ident); ok && objOf(sc.Pkg.TypesInfo, id) == o {
				found = true
			}
			return true
		})
	}
	return found
}

// finalizerLoop is the loop of subscriptionImpl.Unsubscribe that runs the finalizers, in its range or index form.
type finalizerLoop struct {
	Stmt    ast.Stmt
	Body    *ast.BlockStmt
	Forward bool
}

func (l *finalizerLoop) Pos() token.Pos { return l.Stmt.Pos() }

func (l *finalizerLoop) End() token.Pos { return l.Stmt.End() }

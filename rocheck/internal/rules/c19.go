package rules

import (
	"fmt"
	"go/ast"
	"go/types"
	"regexp"
	"strconv"
	"strings"

	"golang.org/x/tools/go/packages"

	"rocheck/internal/check"
	"rocheck/internal/load"
	"rocheck/internal/model"
)

func isPromMetricCall(info *types.Info, call *ast.CallExpr) (string, bool) {
	cl := model.Callee(info, call)
	if cl == nil || cl.Pkg() == nil || !strings.Contains(cl.Pkg().Path(), "prometheus/client_golang/prometheus") {
		return "", false
	}
	switch cl.Name() {
	case "Inc", "Add", "Observe", "Set", "Dec":
		return cl.Name(), true
	}
	return "", false
}

// topLevelStmtOf: node is (inside) a direct statement of body, not nested in a branch or loop.
func topLevelStmtOf(m *model.Model, p *packages.Package, body *ast.BlockStmt, n ast.Node) bool {
	for c := n; c != nil; c = m.Parent(p, c) {
		par := m.Parent(p, c)
		if par == ast.Node(body) {
			return true
		}
		switch par.(type) {
		case *ast.IfStmt, *ast.ForStmt, *ast.RangeStmt, *ast.SwitchStmt, *ast.CaseClause, *ast.SelectStmt, *ast.FuncLit, *ast.DeferStmt, *ast.GoStmt:
			return false
		}
	}
	return false
}

// unconditionalCounterUpdates counts the direct statements of body that increment a Prometheus counter on every
// execution: an Inc/Add call, or a call of a same-repository function or local closure every body of which does.
func unconditionalCounterUpdates(m *model.Model, p *packages.Package, body *ast.BlockStmt, depth int) int {
	n := 0
	for _, st := range body.List {
		es, ok := st.(*ast.ExprStmt)
		if !ok {
			continue
		}
		call, ok := ast.Unparen(es.X).(*ast.CallExpr)
		if !ok {
			continue
		}
		if name, ok := isPromMetricCall(p.TypesInfo, call); ok {
			if name == "Inc" || name == "Add" {
				n++
			}
			continue
		}
		if depth == 0 {
			continue
		}
		bodies := calleeBodies(m, p, call)
		all := len(bodies) > 0
		for _, b := range bodies {
			if unconditionalCounterUpdates(m, b.Pkg, b.Body, depth-1) == 0 {
				all = false
			}
		}
		if all {
			n++
		}
	}
	return n
}

// FORWARDER
func ruleForwarder() check.Rule {
	return check.Rule{
		Name:        "FORWARDER",
		Doc:         "every instrumentation operator of the Prometheus plugin is the identity on notifications: one upstream subscribe site with the subscriber context; the next slot forwards its own value exactly once, unconditionally, with the slot's context (or context.WithValue of it); error and complete slots forward exactly once unchanged (method values or one unconditional call); pass-through operators hand the destination itself upstream",
		NeedControl: true,
		Run: func(c *check.Ctx) {
			m := c.M
			cp := newCtxProv(m)
			for _, sc := range m.SCs {
				if !c.Armed(sc) && !check.IsControlName(sc.Name) {
					continue
				}
				c.Inc("instrumentation_scs", 1)
				key := sc.String() + "/forwarder"
				if len(sc.SubSites) != 1 {
					c.Violation(key, sc.Lit.Pos(), "%d upstream subscribe sites (expected exactly one)", len(sc.SubSites))
					continue
				}
				s := sc.SubSites[0]
				if s.PassThru {
					c.OK(key, s.Pos, "hands the destination itself to the upstream: every notification passes unchanged")
					continue
				}
				if s.Observer == nil || s.Observer.Kind != model.AVObserver {
					c.Undecided(key, s.Pos, "observer of the upstream subscription is not built in place")
					continue
				}
				info := sc.Pkg.TypesInfo
				problems := []string{}
				for k := 0; k < 3; k++ {
					slot := s.Observer.Slots[k]
					var emits []*model.EmitSite
					for _, e := range sc.Emits {
						if e.ToDest && e.Ctx == s.Src && e.Slot == k {
							emits = append(emits, e)
						}
					}
					if len(emits) != 1 || emits[0].Kind != k {
						problems = append(problems, fmt.Sprintf("the %s slot forwards %d notifications (expected exactly one %s)", model.SlotNames[k], len(emits), model.SlotNames[k]))
						continue
					}
					e := emits[0]
					if e.Forwarder {
						continue
					}
					if slot == nil || slot.Lit == nil {
						problems = append(problems, fmt.Sprintf("the %s slot is not a literal or a method value of the destination", model.SlotNames[k]))
						continue
					}
					if !topLevelStmtOf(m, sc.Pkg, slot.Lit.Body, e.Node) {
						problems = append(problems, fmt.Sprintf("the %s slot forwards conditionally", model.SlotNames[k]))
					}
					// payload unchanged
					prm := model.FlattenParams(info, slot.Lit.Type.Params)
					if k != model.EmitComplete {
						if len(e.Args) != 1 || len(prm) != 2 {
							problems = append(problems, fmt.Sprintf("the %s slot does not forward its own payload", model.SlotNames[k]))
						} else if id, ok := ast.Unparen(e.Args[0]).(*ast.Ident); !ok || objOf(info, id) != prm[1] || len(m.Defs[prm[1]]) > 0 {
							problems = append(problems, fmt.Sprintf("the %s slot forwards %q instead of the payload it received", model.SlotNames[k], types.ExprString(e.Args[0])))
						}
					}
					// context: derived from the slot's ctx
					cp.stack = e.Stack
					if r := cp.classify(e.Pkg, e.CtxArg, e.Node, 0); !r.ok || !strings.Contains(r.why, "slot ctx") {
						problems = append(problems, fmt.Sprintf("the %s slot forwards a context that is not derived from the one it received (%s)", model.SlotNames[k], r.why))
					} else if len(prm) > 0 && e.CtxArg != nil && !onlyFrom(m, info, e.CtxArg, prm[0], 0) {
						problems = append(problems, fmt.Sprintf("the %s slot forwards a context one of whose definitions is not derived from the context it received (%s): per-notification context values are dropped", model.SlotNames[k], r.why))
					}
				}
				// upstream context
				if r := cp.classify(s.Pkg, s.CtxArg, s.Call, 0); s.CtxArg == nil || !r.ok {
					problems = append(problems, "the upstream is not subscribed with the subscriber context")
				}
				if len(problems) == 0 {
					c.OK(key, s.Pos, "identity on next/error/complete and on contexts")
				} else {
					c.Violation(key, s.Pos, "instrumentation is not transparent: %s", strings.Join(problems, "; "))
				}
			}
		},
	}
}

var incCounterRe = regexp.MustCompile(`^IncCounterOn(Next|Error|Complete|Subscription)$`)

// COUNT-ONCE
func ruleCountOnce() check.Rule {
	return check.Rule{
		Name: "COUNT-ONCE",
		Doc:  "every metric update (Inc/Add/Observe) of the plugin executes at most once per notification it measures (not in a loop), the stand-alone IncCounterOn<X> operators update exactly once, unconditionally, in the slot (or subscribe body) their name says and before forwarding; the aggregate operators update their counters unconditionally in the next slot / subscribe body",
		Run: func(c *check.Ctx) {
			m := c.M
			for _, sc := range m.SCs {
				if !c.Armed(sc) {
					continue
				}
				info := sc.Pkg.TypesInfo
				type mc struct {
					call *ast.CallExpr
					name string
					slot int // -1 body
					top  bool
					loop bool
				}
				var mcs []mc
				// walk function places: SC body and slot literals
				var slots [3]*ast.FuncLit
				if len(sc.SubSites) == 1 && sc.SubSites[0].Observer != nil && sc.SubSites[0].Observer.Kind == model.AVObserver {
					for k := 0; k < 3; k++ {
						if av := sc.SubSites[0].Observer.Slots[k]; av != nil {
							slots[k] = av.Lit
						}
					}
				}
				scan := func(body *ast.BlockStmt, slot int) {
					ast.Inspect(body, func(n ast.Node) bool {
						if l, ok := n.(*ast.FuncLit); ok {
							for _, sl := range slots {
								if sl == l {
									return false
								}
							}
						}
						call, ok := n.(*ast.CallExpr)
						if !ok {
							return true
						}
						name, ok := isPromMetricCall(info, call)
						if !ok {
							// a helper of the plugin that updates a metric (observeElapsed(observer, start, end)) is the update
							for _, b := range calleeBodies(m, sc.Pkg, call) {
								ast.Inspect(b.Body, func(z ast.Node) bool {
									if ic, isCall := z.(*ast.CallExpr); isCall && !ok {
										if nm, isMetric := isPromMetricCall(b.Pkg.TypesInfo, ic); isMetric && topLevelStmtOf(m, b.Pkg, b.Body, ic) {
											name, ok = nm, true
										}
									}
									return !ok
								})
							}
						}
						if ok {
							inLoop := false
							for cn := ast.Node(call); cn != nil && cn != ast.Node(body); cn = m.Parent(sc.Pkg, cn) {
								switch cn.(type) {
								case *ast.ForStmt, *ast.RangeStmt:
									inLoop = true
								}
							}
							mcs = append(mcs, mc{call, name, slot, topLevelStmtOf(m, sc.Pkg, body, call), inLoop})
						}
						return true
					})
				}
				scan(sc.Lit.Body, -1)
				for k, sl := range slots {
					if sl != nil {
						scan(sl.Body, k)
					}
				}
				// instrumentation never branches on the state of the destination: what is measured must not depend on
				// whether downstream has just terminated
				if sc.Dest != nil {
					nb := 0
					ast.Inspect(sc.Lit.Body, func(n ast.Node) bool {
						ifs, ok := n.(*ast.IfStmt)
						if !ok {
							return true
						}
						mentions := false
						ast.Inspect(ifs.Cond, func(y ast.Node) bool {
							if id, ok := y.(*ast.Ident); ok && objOf(info, id) == types.Object(sc.Dest) {
								mentions = true
							}
							return !mentions
						})
						if mentions {
							nb++
							c.Violation(fmt.Sprintf("%s/branches-on-destination#%d", sc, nb), ifs.Pos(), "the instrumentation branches on the state of its destination: the notification that makes downstream terminate is forwarded and counted but its measurement is skipped, so the exported series disagree with each other")
						}
						return true
					})
				}
				c.Inc("metric_updates", len(mcs))
				for i, x := range mcs {
					key := fmt.Sprintf("%s/metric#%d-%s", sc, i+1, x.name)
					where := "subscribe body"
					if x.slot >= 0 {
						where = model.SlotNames[x.slot] + " slot"
					}
					if x.loop {
						c.Violation(key, x.call.Pos(), "metric update inside a loop in the %s: one notification is counted several times", where)
						continue
					}
					c.OK(key, x.call.Pos(), "%s in the %s, at most once per invocation (unconditional=%v)", x.name, where, x.top)
				}
				// named stand-alone counters
				if mt := incCounterRe.FindStringSubmatch(sc.Name); mt != nil {
					want := map[string]int{"Next": 0, "Error": 1, "Complete": 2, "Subscription": -1}[mt[1]]
					key := sc.String() + "/counts-" + strings.ToLower(mt[1])
					if len(mcs) != 1 || mcs[0].slot != want || !mcs[0].top || mcs[0].name != "Inc" {
						c.Violation(key, sc.Lit.Pos(), "%s must increment its counter exactly once, unconditionally, in the %s; found %d metric updates", sc.Name, mt[1], len(mcs))
					} else {
						// before forwarding
						before := true
						for _, e := range sc.Emits {
							if e.ToDest && !e.Forwarder && e.Slot == want && e.Ctx.Kind == model.KSrc && e.Pos < mcs[0].call.Pos() {
								before = false
							}
						}
						if want == -1 && len(sc.SubSites) == 1 && sc.SubSites[0].Pos < mcs[0].call.Pos() {
							before = false
						}
						if before {
							c.OK(key, mcs[0].call.Pos(), "one unconditional increment per %s event, before forwarding", mt[1])
						} else {
							c.Violation(key, mcs[0].call.Pos(), "the counter is incremented after the notification was forwarded (a panic or early termination downstream loses the count)")
						}
					}
				}
				// aggregate operators: counters unconditional
				switch sc.Name {
				case "observeBeforePipe", "observeAfterPipe":
					for i, x := range mcs {
						if x.name == "Inc" && !x.top {
							c.Violation(fmt.Sprintf("%s/aggregate-counter#%d", sc, i+1), x.call.Pos(), "aggregate counter is incremented conditionally: the exported totals no longer equal the number of events")
						}
					}
					// every counter the aggregate is handed is incremented unconditionally somewhere (subscribe body or a
					// slot), directly or through a helper all of whose paths update a metric: a counter whose increments
					// are accumulated and published later (a batch flushed every N events or at the terminal) is behind
					// by what is pending, and a subscription that is torn down never publishes the rest
					counters := 0
					if sc.Decl != nil {
						for _, pv := range model.FlattenParams(info, sc.Decl.Type.Params) {
							if pv == nil {
								continue
							}
							if o, _, _ := types.LookupFieldOrMethod(pv.Type(), true, sc.Pkg.Types, "Inc"); o != nil {
								if _, isFn := o.(*types.Func); isFn && strings.Contains(pv.Type().String(), "prometheus") {
									counters++
								}
							}
						}
					}
					updates := unconditionalCounterUpdates(m, sc.Pkg, sc.Lit.Body, 3)
					for _, sl := range slots {
						if sl != nil {
							updates += unconditionalCounterUpdates(m, sc.Pkg, sl.Body, 3)
						}
					}
					c.Inc("aggregate_counters", counters)
					key := sc.String() + "/counters-updated-directly"
					if updates < counters {
						c.Violation(key, sc.Lit.Pos(), "%s is handed %d counter(s) but only %d unconditional counter update(s) are made in its subscribe body and slots: an increment that is deferred, batched or conditional makes the exported total differ from the number of events (what is pending when the subscription is torn down is never published)", sc.Name, counters, updates)
					} else {
						c.OK(key, sc.Lit.Pos(), "%d counter parameter(s), %d unconditional update(s)", counters, updates)
					}
				}
			}
		},
	}
}

// METRICS-WIRED: every metric handed to an instrumentation function is updated, every metric of the collector is exported.
func ruleMetricsWired() check.Rule {
	return check.Rule{
		Name: "METRICS-WIRED",
		Doc:  "in the Prometheus plugin every parameter of a metric type (a type with an Inc, Add or Observe method: Counter, Gauge, Observer, Summary, Histogram) of a function is the receiver of a metric update or is passed on somewhere in that function; and every field of the collector struct whose type has Describe and Collect methods is described in Describe and collected in Collect: a counter that is created, registered and never incremented exports a constant zero",
		Run: func(c *check.Ctx) {
			p := c.Prog.ByPath[PromPkg]
			if p == nil {
				c.Undecided("prometheus/loaded", c.M.Obj.Ro.Syntax[0].Pos(), "package not loaded")
				return
			}
			info := p.TypesInfo
			hasMethod := func(t types.Type, names ...string) bool {
				for _, n := range names {
					if o, _, _ := types.LookupFieldOrMethod(t, true, p.Types, n); o != nil {
						if _, isFn := o.(*types.Func); isFn {
							return true
						}
					}
				}
				return false
			}
			nParams := 0
			for _, f := range p.Syntax {
				if strings.HasSuffix(c.Prog.Fset.Position(f.Pos()).Filename, "_test.go") {
					continue
				}
				for _, d := range f.Decls {
					fd, ok := d.(*ast.FuncDecl)
					if !ok || fd.Body == nil || check.IsControlName(fd.Name.Name) {
						continue
					}
					for _, pv := range model.FlattenParams(info, fd.Type.Params) {
						if pv == nil || pv.Name() == "_" || pv.Name() == "" {
							continue
						}
						if _, isIface := pv.Type().Underlying().(*types.Interface); !isIface {
							if _, isPtr := pv.Type().Underlying().(*types.Pointer); !isPtr {
								continue
							}
						}
						if !hasMethod(pv.Type(), "Inc", "Observe") {
							continue
						}
						nParams++
						used := false
						ast.Inspect(fd.Body, func(x ast.Node) bool {
							if id, ok := x.(*ast.Ident); ok && info.Uses[id] == types.Object(pv) {
								used = true
							}
							return !used
						})
						key := fmt.Sprintf("%s.%s/metric-param-%s", model.ShortPkg(PromPkg), fd.Name.Name, pv.Name())
						if used {
							c.OK(key, pv.Pos(), "the metric is updated or passed on")
						} else {
							c.Violation(key, pv.Pos(), "metric parameter %q of %s is never updated nor passed on: the exported series stays at zero whatever flows through the pipeline", pv.Name(), fd.Name.Name)
						}
					}
				}
			}
			c.Inc("metric_params", nParams)
			// the collector exports all its metrics
			for _, name := range p.Types.Scope().Names() {
				tn, ok := p.Types.Scope().Lookup(name).(*types.TypeName)
				if !ok {
					continue
				}
				st, ok := tn.Type().Underlying().(*types.Struct)
				if !ok || !hasMethod(types.NewPointer(tn.Type()), "Describe") || !hasMethod(types.NewPointer(tn.Type()), "Collect") {
					continue
				}
				for _, mn := range []string{"Describe", "Collect"} {
					fd := load.FuncDeclOf(p, name+"."+mn)
					if fd == nil || fd.Body == nil {
						continue
					}
					rv := recvObj(info, fd)
					for i := 0; i < st.NumFields(); i++ {
						fld := st.Field(i)
						if !hasMethod(fld.Type(), "Describe") || !hasMethod(fld.Type(), "Collect") {
							continue
						}
						c.Inc("collector_fields", 1)
						found := false
						ast.Inspect(fd.Body, func(x ast.Node) bool {
							call, ok := x.(*ast.CallExpr)
							if !ok {
								return true
							}
							if sel, ok := ast.Unparen(call.Fun).(*ast.SelectorExpr); ok && sel.Sel.Name == mn {
								if fs := fieldSelOf(info, sel.X, rv); fs != nil && fs.Sel.Name == fld.Name() {
									found = true
								}
							}
							return !found
						})
						key := fmt.Sprintf("%s.%s.%s/exports-%s", model.ShortPkg(PromPkg), name, mn, fld.Name())
						if found {
							c.OK(key, fd.Pos(), "%s of %s is forwarded", mn, fld.Name())
						} else {
							c.Violation(key, fd.Pos(), "%s.%s does not forward to the metric %s: that series is never exported", name, mn, fld.Name())
						}
					}
				}
			}
		},
	}
}

// LICENCE-BOTH-ARMS
func ruleLicenceArms() check.Rule {
	return check.Rule{
		Name: "LICENCE-BOTH-ARMS",
		Doc:  "checkLicenseAndPipe evaluates the licence inside its subscribe closure (at subscription time) and subscribes exactly one of the two compositions, each built from its own parameter; in the stand-alone operators every early `return source` is guarded by the negated licence test only",
		Run: func(c *check.Ctx) {
			m := c.M
			p := c.Prog.ByPath[PromPkg]
			if p == nil {
				c.Undecided("prometheus/loaded", m.Obj.Ro.Syntax[0].Pos(), "package not loaded")
				return
			}
			info := p.TypesInfo
			sc := m.SCByName(model.ShortPkg(PromPkg) + ".checkLicenseAndPipe")
			key := model.ShortPkg(PromPkg) + ".checkLicenseAndPipe"
			if sc == nil {
				c.Undecided(key+"/anchor", p.Syntax[0].Pos(), "subscribe closure not found")
			} else {
				licenceInside := false
				ast.Inspect(sc.Lit.Body, func(n ast.Node) bool {
					if call, ok := n.(*ast.CallExpr); ok {
						if cl := model.Callee(info, call); cl != nil && cl.Name() == "isPrometheusEnabled" {
							licenceInside = true
						}
					}
					return true
				})
				if licenceInside {
					c.OK(key+"/licence-at-subscription", sc.Lit.Pos(), "the licence is evaluated inside the subscribe closure")
				} else {
					c.Violation(key+"/licence-at-subscription", sc.Lit.Pos(), "the licence is not evaluated at subscription time")
				}
				// the two arms
				params := model.FlattenParams(info, sc.Decl.Type.Params)
				byName := map[string]*types.Var{}
				for _, prm := range params {
					if prm != nil {
						byName[prm.Name()] = prm
					}
				}
				var pv types.Object
				armsOK := 0
				ast.Inspect(sc.Lit.Body, func(n ast.Node) bool {
					ifs, ok := n.(*ast.IfStmt)
					if !ok {
						return true
					}
					call, ok := ast.Unparen(ifs.Cond).(*ast.CallExpr)
					if !ok {
						return true
					}
					if cl := model.Callee(info, call); cl == nil || cl.Name() != "isPrometheusEnabled" {
						return true
					}
					// the parameters an arm is built from, through the variables it mentions and their definitions (the
					// compositions may be applied to the source before the subscribe closure and only chosen here)
					var roots func(n ast.Node, depth int, acc map[types.Object]bool)
					roots = func(n ast.Node, depth int, acc map[types.Object]bool) {
						if n == nil {
							return
						}
						ast.Inspect(n, func(x ast.Node) bool {
							id, ok := x.(*ast.Ident)
							if !ok {
								return true
							}
							o := objOf(info, id)
							if o == nil {
								return true
							}
							if v, isVar := o.(*types.Var); isVar {
								if byName[v.Name()] == v {
									acc[o] = true
									return true
								}
								if depth > 0 {
									for _, d := range m.Defs[v] {
										if d.Expr != nil {
											roots(d.Expr, depth-1, acc)
										}
									}
								}
							}
							return true
						})
					}
					uses := func(acc map[types.Object]bool, want, other *types.Var) bool {
						return want != nil && acc[want] && !acc[other]
					}
					// of an arm: what its statements compute (the right-hand sides), not the variable they assign
					armRoots := func(blk ast.Node, acc map[types.Object]bool) {
						ast.Inspect(blk, func(x ast.Node) bool {
							switch y := x.(type) {
							case *ast.AssignStmt:
								for _, r := range y.Rhs {
									roots(r, 3, acc)
								}
								return false
							case *ast.ExprStmt:
								roots(y, 3, acc)
								return false
							}
							return true
						})
					}
					licensed := map[types.Object]bool{}
					armRoots(ifs.Body, licensed)
					unlicensed := map[types.Object]bool{}
					if ifs.Else != nil {
						armRoots(ifs.Else, unlicensed)
					} else {
						// chain := plain; if enabled { chain = instrumented }: the other arm is what the variable holds otherwise
						ast.Inspect(ifs.Body, func(x ast.Node) bool {
							as, ok := x.(*ast.AssignStmt)
							if !ok {
								return true
							}
							for _, l := range as.Lhs {
								lid, ok := l.(*ast.Ident)
								if !ok {
									continue
								}
								lv := objOf(info, lid)
								pv = lv
								for _, d := range m.Defs[lv] {
									if d.Expr != nil && !(ifs.Body.Pos() <= d.Pos && d.Pos < ifs.Body.End()) {
										roots(d.Expr, 3, unlicensed)
									}
								}
							}
							return true
						})
					}
					if uses(licensed, byName["instrumentedPipe"], byName["stdPipe"]) {
						armsOK++
					}
					if uses(unlicensed, byName["stdPipe"], byName["instrumentedPipe"]) {
						armsOK++
					}
					return true
				})
				if armsOK == 2 {
					c.OK(key+"/arms", sc.Lit.Pos(), "licensed arm uses only the instrumented composition, unlicensed arm only the plain one")
				} else {
					c.Violation(key+"/arms", sc.Lit.Pos(), "the licence test does not select between the instrumented and the plain composition (arms recognised: %d)", armsOK)
				}
				if len(sc.SubSites) == 1 && sc.SubSites[0].PassThru {
					c.OK(key+"/one-subscription", sc.SubSites[0].Pos, "exactly one composition is subscribed, with the destination itself")
				} else {
					c.Violation(key+"/one-subscription", sc.Lit.Pos(), "checkLicenseAndPipe does not subscribe exactly one composition with the destination")
				}
				_ = pv
			}
			// early returns of the stand-alone operators
			n := 0
			for _, f := range p.Syntax {
				ast.Inspect(f, func(x ast.Node) bool {
					lit, ok := x.(*ast.FuncLit)
					if !ok || !m.IsAppLit(info, lit) {
						return true
					}
					src := model.FlattenParams(info, lit.Type.Params)[0]
					ast.Inspect(lit.Body, func(y ast.Node) bool {
						if l2, ok := y.(*ast.FuncLit); ok && l2 != lit {
							return false
						}
						r, ok := y.(*ast.ReturnStmt)
						if !ok || len(r.Results) != 1 {
							return true
						}
						id, ok := ast.Unparen(r.Results[0]).(*ast.Ident)
						if !ok || objOf(info, id) != src {
							return true
						}
						n++
						fd := topDecl(m.EnclosingFuncs(p, lit))
						k := fmt.Sprintf("%s.%s/early-return#%d", model.ShortPkg(PromPkg), model.DeclName(fd), n)
						guard := false
						if ifs, ok := m.Parent(p, m.Parent(p, r)).(*ast.IfStmt); ok {
							if u, ok := ast.Unparen(ifs.Cond).(*ast.UnaryExpr); ok && u.Op.String() == "!" {
								if call, ok := ast.Unparen(u.X).(*ast.CallExpr); ok {
									if cl := model.Callee(info, call); cl != nil && cl.Name() == "isPrometheusEnabled" {
										guard = true
									}
								}
							}
						}
						if guard {
							c.OK(k, r.Pos(), "the source is returned untouched only when the licence is inactive")
						} else {
							c.Violation(k, r.Pos(), "the operator returns its source untouched under a condition other than the inactive licence")
						}
						return true
					})
					return true
				})
			}
			c.Inc("early_returns", n)
		},
	}
}

var promPipeRe = regexp.MustCompile(`^Pipe([0-9]+)$`)

// PIPE-ARMS
func rulePipeArms() check.Rule {
	return check.Rule{
		Name:        "PIPE-ARMS",
		FamilyShape: true,
		Doc:         "in each generated PipeK of the plugin the un-instrumented arm is ro.PipeOpK(operator1..K) in order and the instrumented arm (after flattening nested ro.PipeOp calls) alternates operator_i with observeOperatorProcessingTime(collector.OperatorProcessingTimeSeconds, arg_{i-1}.Name, arg_{i-1}.Pos, i-1), where arg_j is pipeDescription.Arguments[j]",
		Run: func(c *check.Ctx) {
			p := c.Prog.ByPath[PromPkg]
			if p == nil {
				return
			}
			info := p.TypesInfo
			n := 0
			var flatten func(e ast.Expr) []ast.Expr
			flatten = func(e ast.Expr) []ast.Expr {
				call, ok := ast.Unparen(e).(*ast.CallExpr)
				if ok {
					if cl := model.Callee(info, call); cl != nil && cl.Pkg() != nil && cl.Pkg().Path() == ro && strings.HasPrefix(cl.Name(), "PipeOp") {
						var out []ast.Expr
						for _, a := range call.Args {
							out = append(out, flatten(a)...)
						}
						return out
					}
				}
				return []ast.Expr{e}
			}
			for _, f := range p.Syntax {
				for _, d := range f.Decls {
					fd, ok := d.(*ast.FuncDecl)
					if !ok || fd.Body == nil {
						continue
					}
					mt := promPipeRe.FindStringSubmatch(fd.Name.Name)
					if mt == nil {
						continue
					}
					k, _ := strconv.Atoi(mt[1])
					n++
					key := model.ShortPkg(PromPkg) + "." + fd.Name.Name + "/arms"
					params := model.FlattenParams(info, fd.Type.Params)
					var ops []*types.Var
					for _, prm := range params {
						if prm != nil && strings.HasPrefix(prm.Name(), "operator") {
							ops = append(ops, prm)
						}
					}
					// argJ := pipeDescription.Arguments[J]
					argIndex := map[types.Object]int64{}
					ast.Inspect(fd.Body, func(x ast.Node) bool {
						as, ok := x.(*ast.AssignStmt)
						if !ok || len(as.Lhs) != 1 || len(as.Rhs) != 1 {
							return true
						}
						ix, ok := ast.Unparen(as.Rhs[0]).(*ast.IndexExpr)
						if !ok {
							return true
						}
						if sel, ok := ast.Unparen(ix.X).(*ast.SelectorExpr); ok && sel.Sel.Name == "Arguments" {
							if v, ok := constVal(info, ix.Index); ok {
								if id, ok := as.Lhs[0].(*ast.Ident); ok {
									argIndex[objOf(info, id)] = v
								}
							}
						}
						return true
					})
					var clp *ast.CallExpr
					ast.Inspect(fd.Body, func(x ast.Node) bool {
						if call, ok := x.(*ast.CallExpr); ok {
							if cl := model.Callee(info, call); cl != nil && cl.Name() == "checkLicenseAndPipe" {
								clp = call
							}
						}
						return true
					})
					if clp == nil || len(clp.Args) != 4 || len(ops) != k {
						c.Violation(key, fd.Pos(), "%s does not call checkLicenseAndPipe(collector, source, plain, instrumented) with %d operators", fd.Name.Name, k)
						continue
					}
					problems := []string{}
					plain := flatten(clp.Args[2])
					if len(plain) != k {
						problems = append(problems, fmt.Sprintf("the plain arm has %d stages, expected %d", len(plain), k))
					} else {
						for i, e := range plain {
							if id, ok := ast.Unparen(e).(*ast.Ident); !ok || objOf(info, id) != ops[i] {
								problems = append(problems, fmt.Sprintf("stage %d of the plain arm is %s, expected operator%d", i+1, types.ExprString(e), i+1))
								break
							}
						}
					}
					inst := flatten(clp.Args[3])
					if len(inst) != 2*k {
						problems = append(problems, fmt.Sprintf("the instrumented arm has %d stages, expected %d", len(inst), 2*k))
					} else {
						for i := 0; i < k; i++ {
							if id, ok := ast.Unparen(inst[2*i]).(*ast.Ident); !ok || objOf(info, id) != ops[i] {
								problems = append(problems, fmt.Sprintf("stage %d of the instrumented arm is %s, expected operator%d", 2*i+1, types.ExprString(inst[2*i]), i+1))
								break
							}
							call, ok := ast.Unparen(inst[2*i+1]).(*ast.CallExpr)
							if !ok {
								problems = append(problems, fmt.Sprintf("operator%d is not followed by a processing-time observer", i+1))
								break
							}
							if cl := model.Callee(info, call); cl == nil || cl.Name() != "observeOperatorProcessingTime" || len(call.Args) != 4 {
								problems = append(problems, fmt.Sprintf("operator%d is followed by %s instead of observeOperatorProcessingTime", i+1, types.ExprString(call.Fun)))
								break
							}
							if sel, ok := ast.Unparen(call.Args[0]).(*ast.SelectorExpr); !ok || sel.Sel.Name != "OperatorProcessingTimeSeconds" {
								problems = append(problems, fmt.Sprintf("the observer after operator%d does not record into OperatorProcessingTimeSeconds", i+1))
							}
							for ai, field := range []string{"Name", "Pos"} {
								sel, ok := ast.Unparen(call.Args[1+ai]).(*ast.SelectorExpr)
								okArg := false
								if ok && sel.Sel.Name == field {
									if id, ok := ast.Unparen(sel.X).(*ast.Ident); ok {
										if j, has := argIndex[objOf(info, id)]; has && j == int64(i) {
											okArg = true
										}
									}
								}
								if !okArg {
									problems = append(problems, fmt.Sprintf("the observer after operator%d is labelled with %s instead of the %s of argument %d", i+1, types.ExprString(call.Args[1+ai]), field, i))
								}
							}
							if v, ok := constVal(info, call.Args[3]); !ok || v != int64(i) {
								problems = append(problems, fmt.Sprintf("the observer after operator%d carries index %s, expected %d", i+1, types.ExprString(call.Args[3]), i))
							}
						}
					}
					if len(problems) == 0 {
						c.OK(key, fd.Pos(), "plain arm: operator1..%d; instrumented arm: each operator followed by its processing-time observer with matching name/position/index", k)
					} else {
						c.Violation(key, fd.Pos(), "%s", strings.Join(problems, "; "))
					}
				}
			}
			c.Inc("prometheus_pipes", n)
			c.Note("PIPE-ARMS recognised=%d", n)
		},
	}
}

const controlsC19 = `
func verifControlCountTwice[T any](counter prometheus.Counter) func(ro.Observable[T]) ro.Observable[T] {
	return func(source ro.Observable[T]) ro.Observable[T] {
		return ro.NewUnsafeObservableWithContext(func(subscriberCtx context.Context, destination ro.Observer[T]) ro.Teardown {
			sub := source.SubscribeWithContext(subscriberCtx, ro.NewObserverWithContext(
				func(ctx context.Context, value T) {
					counter.Inc()
					destination.NextWithContext(context.Background(), value)
				},
				destination.ErrorWithContext,
				func(ctx context.Context) {},
			))
			return sub.Unsubscribe
		})
	}
}
`

func C19() *check.Property {
	return &check.Property{
		ID:       "C19",
		Title:    "Prometheus instrumentation is transparent and its counters are exact",
		Patterns: cat(CorePatterns, []string{PromPkg}),
		Scope:    []string{PromPkg},
		Rules:    []check.Rule{ruleForwarder(), ruleCountOnce(), ruleMetricsWired(), ruleLicenceArms(), rulePipeArms(), ruleRelease(), ruleNoDowngrade(), ruleStateLevel(), ruleCtxProvenance(), ruleSlotCtxArgument(), ruleCallbackCtxUsed(), ruleDeadContextStore(), ruleCtxValueAgreement(), ruleNoGlobalState(), ruleBracketPlacement(), ruleApplyAtBuildTime()},
		Explanation: "Static check on ee/plugins/prometheus (the OpenTelemetry plugin cannot be type-checked offline and is out of reach). FORWARDER proves each instrumentation operator is the identity on notifications and contexts (one upstream site with the subscriber context; " +
			"each slot forwards exactly once, unconditionally, its own payload with a context derived from the one it received; or the destination itself is handed upstream); with C01-C03 for the core this is transparency. COUNT-ONCE proves each metric update sits in the slot " +
			"its operator's name says and runs at most once per event, before forwarding for the stand-alone counters. LICENCE-BOTH-ARMS proves the licence is evaluated at subscription time and selects between compositions built from the same operators; " +
			"PIPE-ARMS checks all generated PipeK: plain arm = the user's operators in order, instrumented arm = each operator followed by its processing-time observer with matching name, position and index.",
		NotDecided:  "numeric equality of exported counters with an execution trace (follows from once-per-slot plus the grammar, not measured); the Prometheus client library; ee/plugins/otel.",
		Assumptions: []string{"the core honours C01-C03 and C09", "prometheus.Counter.Inc / Observer.Observe do what their names say"},
		Floors:      map[string]int{"instrumentation_scs": 9, "metric_updates": 9, "early_returns": 5, "prometheus_pipes": 20, "acquisitions": 150, "aggregate_counters": 3},
		Controls: map[string]string{
			"ee/plugins/prometheus/zz_verif_controls_c19.go": pluginControl("roprometheus", []string{`"context"`, `"github.com/prometheus/client_golang/prometheus"`, `"github.com/samber/ro"`}, controlsC19),
			"zz_verif_controls_c03.go":                       roControl(controlsC03),
			"zz_verif_controls_c02.go":                       roControl(controlsC02),
			"zz_verif_controls_c12.go":                       roControl(controlsC12),
			"zz_verif_controls_c09.go":                       roControl(controlsC09 + controlsC09b),
			"zz_verif_controls_global.go":                    roControl(controlsGlobal + controlsApplyAtBuild),
		},
	}
}

// onlyFrom: every definition reaching e is the variable root itself or context.With*(...) of something that is.
func onlyFrom(m *model.Model, info *types.Info, e ast.Expr, root *types.Var, depth int) bool {
	return onlyFromRec(m, info, e, root, map[*types.Var]bool{}, depth)
}

func onlyFromRec(m *model.Model, info *types.Info, e ast.Expr, root *types.Var, inflight map[*types.Var]bool, depth int) bool {
	if depth > 12 {
		return false
	}
	switch x := ast.Unparen(e).(type) {
	case *ast.Ident:
		v, ok := objOf(info, x).(*types.Var)
		if !ok {
			return false
		}
		if inflight[v] {
			return true // a definition in terms of itself adds no new origin
		}
		defs := m.Defs[v]
		if v != root && len(defs) == 0 {
			return false
		}
		inflight[v] = true
		defer delete(inflight, v)
		for _, d := range defs {
			if d.Expr == nil || !onlyFromRec(m, info, d.Expr, root, inflight, depth+1) {
				return false
			}
		}
		return true
	case *ast.CallExpr:
		cl := model.Callee(info, x)
		if cl != nil && cl.Pkg() != nil && cl.Pkg().Path() == "context" && strings.HasPrefix(cl.Name(), "With") && len(x.Args) > 0 {
			return onlyFromRec(m, info, x.Args[0], root, inflight, depth+1)
		}
	}
	return false
}

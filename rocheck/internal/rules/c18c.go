package rules

import (
	"fmt"
	"go/ast"
	"go/token"
	"go/types"
	"strings"

	"golang.org/x/tools/go/packages"

	"rocheck/internal/check"
	"rocheck/internal/load"
	"rocheck/internal/model"
)

// LIFT-RESULT: on every path, what an item callback of a lift returns is the result of the wrapped function.
func ruleLiftResult() check.Rule {
	return check.Rule{
		Name: "LIFT-RESULT",
		Doc:  "for every exported function F of a data plugin that is named after a library function it references — a package-level function L.F of a library package the plugin lifts, or a method F of the named library type of one of F's parameters (pattern.Match for roregexp.Match) — and every function literal F hands to a ro operator as its item callback: the value of every non-error return of that callback derives from a call of the homonym (the call itself, a conversion of it, a variable all of whose definitions are such calls, a call of a local function value or plugin helper every target of which returns such a call on every path). A fast path that answers some items with another function (`strings.Contains` when the pattern is a literal) emits something else than what the wrapped function returns for those items",
		Run: func(c *check.Ctx) {
			m := c.M
			nF, nRet := 0, 0
			for _, p := range m.Pkgs {
				if !c.ArmedPkg(p.PkgPath) || strings.HasPrefix(p.PkgPath, ro) && !strings.Contains(p.PkgPath, "/plugins/") {
					continue
				}
				info := p.TypesInfo
				for _, f := range p.Syntax {
					if strings.HasSuffix(c.Prog.Fset.Position(f.Pos()).Filename, "_test.go") {
						continue
					}
					for _, d := range f.Decls {
						fd, ok := d.(*ast.FuncDecl)
						if !ok || fd.Body == nil || fd.Recv != nil || !fd.Name.IsExported() || check.IsControlName(fd.Name.Name) {
							continue
						}
						hom := liftHomonym(m, p, fd)
						if hom == nil {
							continue
						}
						lr := &liftRes{m: m, hom: hom, seen: map[ast.Node]bool{}}
						// item callbacks: function literals handed to ro functions
						var cbs []*ast.FuncLit
						ast.Inspect(fd.Body, func(x ast.Node) bool {
							call, ok := x.(*ast.CallExpr)
							if !ok {
								return true
							}
							cl := model.Callee(info, call)
							if cl == nil || cl.Pkg() == nil || cl.Pkg().Path() != ro {
								return true
							}
							for _, a := range call.Args {
								if l, ok := ast.Unparen(a).(*ast.FuncLit); ok && l.Type.Results != nil && len(l.Type.Results.List) > 0 {
									cbs = append(cbs, l)
								}
							}
							return true
						})
						if len(cbs) == 0 {
							continue
						}
						nF++
						for i, cb := range cbs {
							// only callbacks that do reach the homonym: a lift may use auxiliary callbacks (a key selector)
							if !lr.reaches(p, cb.Body, 3) {
								continue
							}
							bad := 0
							for _, r := range returnsOf(cb.Body) {
								if len(r.Results) == 0 {
									continue
								}
								if len(r.Results) == 2 && !isNilIdent(r.Results[1]) && isErrorType(info.TypeOf(r.Results[1])) {
									if !isNilableZero(info, r.Results[0]) {
										// (value, err) with a computed value: the value still has to come from the homonym
									} else {
										continue
									}
								}
								nRet++
								if !lr.derives(p, r.Results[0], 4) {
									bad++
									c.Violation(fmt.Sprintf("%s.%s/callback#%d-return#%d-from-%s", model.ShortPkg(p.PkgPath), fd.Name.Name, i+1, bad, hom.Name()), r.Pos(),
										"%s lifts %s, but this return of its item callback yields %s, which does not derive from a call of %s on every path: for the items that take this path the emitted value is not what the wrapped function returns", fd.Name.Name, hom.FullName(), types.ExprString(r.Results[0]), hom.Name())
								}
							}
							if bad == 0 {
								c.OK(fmt.Sprintf("%s.%s/callback#%d-from-%s", model.ShortPkg(p.PkgPath), fd.Name.Name, i+1, hom.Name()), cb.Pos(), "every non-error return derives from a call of %s", hom.FullName())
							}
						}
					}
				}
			}
			c.Inc("lift_functions", nF)
			c.Inc("lift_returns", nRet)
		},
	}
}

// liftHomonym: the library function or method F is named after and references, or nil.
func liftHomonym(m *model.Model, p *packages.Package, fd *ast.FuncDecl) *types.Func {
	info := p.TypesInfo
	var hom *types.Func
	ast.Inspect(fd.Body, func(x ast.Node) bool {
		if hom != nil {
			return false
		}
		id, ok := x.(*ast.Ident)
		if !ok || id.Name != fd.Name.Name {
			return true
		}
		fn, ok := info.Uses[id].(*types.Func)
		if !ok || fn.Pkg() == nil || fn.Pkg() == p.Types || strings.HasPrefix(fn.Pkg().Path(), ro) {
			return true
		}
		sig, _ := fn.Type().(*types.Signature)
		if sig == nil {
			return true
		}
		if sig.Recv() == nil {
			hom = fn.Origin()
			return false
		}
		// a method: of the named type of one of F's parameters
		for _, pv := range model.FlattenParams(info, fd.Type.Params) {
			if pv == nil {
				continue
			}
			t := pv.Type()
			if pt, ok := t.(*types.Pointer); ok {
				t = pt.Elem()
			}
			rt := sig.Recv().Type()
			if pt, ok := rt.(*types.Pointer); ok {
				rt = pt.Elem()
			}
			if types.Identical(t, rt) {
				hom = fn.Origin()
			}
		}
		return hom == nil
	})
	if hom != nil {
		return hom
	}
	// not referenced in F's own body: a method F of the library type of one of F's parameters (the reference may have
	// moved into a helper)
	for _, pv := range model.FlattenParams(info, fd.Type.Params) {
		if pv == nil {
			continue
		}
		n := load.NamedOf(pv.Type())
		if n == nil || n.Obj().Pkg() == nil || n.Obj().Pkg() == p.Types || strings.HasPrefix(n.Obj().Pkg().Path(), ro) {
			continue
		}
		if o, _, _ := types.LookupFieldOrMethod(pv.Type(), true, p.Types, fd.Name.Name); o != nil {
			if fn, ok := o.(*types.Func); ok && fn.Exported() {
				return fn.Origin()
			}
		}
	}
	return nil
}

type liftRes struct {
	m    *model.Model
	hom  *types.Func
	seen map[ast.Node]bool
}

func (lr *liftRes) isHom(info *types.Info, e ast.Expr) bool {
	switch x := ast.Unparen(e).(type) {
	case *ast.Ident:
		fn, ok := info.Uses[x].(*types.Func)
		return ok && fn.Origin() == lr.hom
	case *ast.SelectorExpr:
		fn, ok := info.Uses[x.Sel].(*types.Func)
		return ok && fn.Origin() == lr.hom
	case *ast.IndexExpr: // explicit instantiation
		return lr.isHom(info, x.X)
	}
	return false
}

// reaches: root references the homonym, directly or through plugin helpers and local closures.
func (lr *liftRes) reaches(p *packages.Package, root ast.Node, depth int) bool {
	found := false
	ast.Inspect(root, func(x ast.Node) bool {
		if found {
			return false
		}
		switch y := x.(type) {
		case *ast.Ident:
			if fn, ok := p.TypesInfo.Uses[y].(*types.Func); ok && fn.Origin() == lr.hom {
				found = true
			}
			if depth > 0 {
				if v, ok := objOf(p.TypesInfo, y).(*types.Var); ok {
					for _, d := range lr.m.Defs[v] {
						if d.Node != nil && !lr.seen[d.Node] {
							lr.seen[d.Node] = true
							if lr.reaches(p, d.Node, depth-1) {
								found = true
							}
							delete(lr.seen, d.Node)
						}
					}
				}
			}
		case *ast.CallExpr:
			if depth > 0 {
				for _, b := range calleeBodies(lr.m, p, y) {
					if lr.reaches(b.Pkg, b.Body, depth-1) {
						found = true
					}
				}
			}
		}
		return !found
	})
	return found
}

// derives: the value of e is, on every path, the result of a call of the homonym.
func (lr *liftRes) derives(p *packages.Package, e ast.Expr, depth int) bool {
	info := p.TypesInfo
	e = ast.Unparen(e)
	switch x := e.(type) {
	case *ast.CallExpr:
		if tv, ok := info.Types[x.Fun]; ok && tv.IsType() && len(x.Args) == 1 {
			return lr.derives(p, x.Args[0], depth)
		}
		if lr.isHom(info, x.Fun) {
			return true
		}
		if depth == 0 {
			return false
		}
		return lr.callTargetsDerive(p, x, depth-1)
	case *ast.Ident:
		v, ok := objOf(info, x).(*types.Var)
		if !ok {
			return false
		}
		defs := lr.m.Defs[v]
		if len(defs) == 0 {
			// var t T; err := hom(data, &t); return t, err
			return !isParamVar(lr.m, v) && lr.filledByHomonym(p, x, v)
		}
		if depth == 0 {
			return false
		}
		for _, d := range defs {
			switch {
			case d.Expr != nil:
				if !lr.derives(p, d.Expr, depth-1) {
					return false
				}
			default:
				// a tuple definition: v, err := hom(...)
				as, ok := d.Node.(*ast.AssignStmt)
				if !ok || len(as.Rhs) != 1 {
					return false
				}
				idx := -1
				for i, l := range as.Lhs {
					if id, ok := l.(*ast.Ident); ok && objOf(info, id) == types.Object(v) {
						idx = i
					}
				}
				call, ok := ast.Unparen(as.Rhs[0]).(*ast.CallExpr)
				if !ok || idx != 0 {
					return false
				}
				if !lr.isHom(info, call.Fun) && !lr.callTargetsDerive(p, call, depth-1) {
					return false
				}
			}
		}
		return true
	case *ast.UnaryExpr, *ast.StarExpr:
		return false
	}
	return false
}

// callTargetsDerive: every function the call may run returns, on every path, a value that derives from the homonym.
func (lr *liftRes) callTargetsDerive(p *packages.Package, call *ast.CallExpr, depth int) bool {
	info := p.TypesInfo
	type target struct {
		p    *packages.Package
		body *ast.BlockStmt
	}
	var targets []target
	add := func(q *packages.Package, b *ast.BlockStmt) { targets = append(targets, target{q, b}) }
	var fromExpr func(q *packages.Package, e ast.Expr, d int) bool // false: an unknown target
	fromExpr = func(q *packages.Package, e ast.Expr, d int) bool {
		e = ast.Unparen(e)
		if lr.isHom(q.TypesInfo, e) {
			return true // the homonym itself as a function value
		}
		switch x := e.(type) {
		case *ast.FuncLit:
			add(q, x.Body)
			return true
		case *ast.Ident:
			switch o := objOf(q.TypesInfo, x).(type) {
			case *types.Func:
				if di := lr.m.Decls[o.Origin()]; di != nil && di.Decl.Body != nil {
					add(di.Pkg, di.Decl.Body)
					return true
				}
				return false
			case *types.Var:
				defs := lr.m.Defs[o]
				if len(defs) == 0 || d == 0 {
					return false
				}
				for _, df := range defs {
					if df.Expr != nil {
						if !fromExpr(q, df.Expr, d-1) {
							return false
						}
						continue
					}
					// f, g := helper(...): the idx-th result of every return of the helper
					as, ok := df.Node.(*ast.AssignStmt)
					if !ok || len(as.Rhs) != 1 {
						return false
					}
					idx := -1
					for i, l := range as.Lhs {
						if id, ok := l.(*ast.Ident); ok && objOf(q.TypesInfo, id) == types.Object(o) {
							idx = i
						}
					}
					hc, ok := ast.Unparen(as.Rhs[0]).(*ast.CallExpr)
					if !ok || idx < 0 {
						return false
					}
					bodies := calleeBodies(lr.m, q, hc)
					if len(bodies) == 0 {
						return false
					}
					for _, b := range bodies {
						for _, r := range returnsOf(b.Body) {
							if idx >= len(r.Results) || !fromExpr(b.Pkg, r.Results[idx], d-1) {
								return false
							}
						}
					}
				}
				return true
			}
		case *ast.SelectorExpr:
			if fo, ok := q.TypesInfo.Uses[x.Sel].(*types.Func); ok {
				if di := lr.m.Decls[fo.Origin()]; di != nil && di.Decl.Body != nil {
					add(di.Pkg, di.Decl.Body)
					return true
				}
			}
		case *ast.CallExpr:
			// helper(...) returning a function value
			bodies := calleeBodies(lr.m, q, x)
			if len(bodies) == 0 || d == 0 {
				return false
			}
			for _, b := range bodies {
				for _, r := range returnsOf(b.Body) {
					if len(r.Results) != 1 || !fromExpr(b.Pkg, r.Results[0], d-1) {
						return false
					}
				}
			}
			return true
		}
		return false
	}
	_ = info
	if !fromExpr(p, call.Fun, 3) {
		return false
	}
	for _, t := range targets {
		if lr.seen[t.body] {
			return false
		}
		lr.seen[t.body] = true
		ok := true
		rets := returnsOf(t.body)
		if len(rets) == 0 {
			ok = false
		}
		for _, r := range rets {
			if len(r.Results) == 0 || !lr.derives(t.p, r.Results[0], depth) {
				ok = false
			}
		}
		delete(lr.seen, t.body)
		if !ok {
			return false
		}
	}
	return true
}

// returnsOf: the return statements of body itself (not of nested literals).
func returnsOf(body *ast.BlockStmt) []*ast.ReturnStmt {
	var out []*ast.ReturnStmt
	ast.Inspect(body, func(x ast.Node) bool {
		switch y := x.(type) {
		case *ast.FuncLit:
			return false
		case *ast.ReturnStmt:
			out = append(out, y)
		}
		return true
	})
	return out
}

func isNilIdent(e ast.Expr) bool {
	id, ok := ast.Unparen(e).(*ast.Ident)
	return ok && id.Name == "nil"
}

// isNilableZero: a zero value written out (nil, "", 0, false, T{}, a zero-valued variable is not recognised).
func isNilableZero(info *types.Info, e ast.Expr) bool {
	switch x := ast.Unparen(e).(type) {
	case *ast.Ident:
		return x.Name == "nil" || x.Name == "false"
	case *ast.BasicLit:
		return x.Value == `""` || x.Value == "0"
	case *ast.CompositeLit:
		return len(x.Elts) == 0
	case *ast.CallExpr:
		if tv, ok := info.Types[x.Fun]; ok && tv.IsType() && len(x.Args) == 1 {
			return isNilableZero(info, x.Args[0])
		}
	}
	return false
}

// filledByHomonym: v is declared without a value and its address is an argument of a call of the homonym in the
// function that uses it (the out-parameter form: json.Unmarshal(data, &t)).
func (lr *liftRes) filledByHomonym(p *packages.Package, use *ast.Ident, v *types.Var) bool {
	fns := lr.m.EnclosingFuncs(p, use)
	if len(fns) == 0 {
		return false
	}
	body := funcBody(fns[len(fns)-1])
	if body == nil {
		return false
	}
	found := false
	ast.Inspect(body, func(x ast.Node) bool {
		call, ok := x.(*ast.CallExpr)
		if !ok || found || !lr.isHom(p.TypesInfo, call.Fun) {
			return !found
		}
		for _, a := range call.Args {
			if u, ok := ast.Unparen(a).(*ast.UnaryExpr); ok && u.Op == token.AND {
				if id, ok := ast.Unparen(u.X).(*ast.Ident); ok && objOf(p.TypesInfo, id) == types.Object(v) {
					found = true
				}
			}
		}
		return !found
	})
	return found
}

// CAPABILITY-WIDENING: a caller's io.Reader / io.Writer is used as what it was handed over as.
func ruleCapabilityWidening() check.Rule {
	return check.Rule{
		Name: "CAPABILITY-WIDENING",
		Doc:  "in the data plugins, a parameter whose static type is an interface of package io (io.Reader, io.Writer, ...) is never type-asserted to an interface that adds a method which moves the position of, or rewrites, the handed-over object (Seek, Truncate, UnreadByte, UnreadRune, Reset, WriteAt); Close, forward readers/writers (WriterTo, ByteReader, ...) and inspectors (Len, Stat) are accepted: such an assertion lets the plugin move or rewrite what the caller positioned — a reader rewound to offset 0 on subscription re-emits the header the caller had already consumed, so the concatenation of the emitted chunks is no longer what reading the handed-over reader returns",
		Run: func(c *check.Ctx) {
			m := c.M
			n := 0
			for _, p := range m.Pkgs {
				if !c.ArmedPkg(p.PkgPath) || !strings.Contains(p.PkgPath, "/plugins/") {
					continue
				}
				info := p.TypesInfo
				ioParam := func(e ast.Expr) *types.Var {
					id, ok := ast.Unparen(e).(*ast.Ident)
					if !ok {
						return nil
					}
					v, ok := objOf(info, id).(*types.Var)
					if !ok || !isParamVar(m, v) {
						return nil
					}
					nt := load.NamedOf(v.Type())
					if nt == nil || nt.Obj().Pkg() == nil || nt.Obj().Pkg().Path() != "io" {
						return nil
					}
					if _, isIface := nt.Underlying().(*types.Interface); !isIface {
						return nil
					}
					return v
				}
				extra := func(static, asserted types.Type) []string {
					ai, ok := asserted.Underlying().(*types.Interface)
					if !ok {
						return nil // a concrete type: the plugin recognises one implementation, nothing is widened through an interface
					}
					si, _ := static.Underlying().(*types.Interface)
					have := map[string]bool{"Close": true}
					if si != nil {
						for i := 0; i < si.NumMethods(); i++ {
							have[si.Method(i).Name()] = true
						}
					}
					// methods that move the position of, or rewrite, what the caller handed over; anything else an assertion
					// may look for (WriterTo, ByteReader, Len, Stat, Sync, deadlines) reads or writes forward or does not
					// touch the data
					moves := map[string]bool{"Seek": true, "Truncate": true, "UnreadByte": true, "UnreadRune": true, "Reset": true, "WriteAt": true}
					var out []string
					for i := 0; i < ai.NumMethods(); i++ {
						if !have[ai.Method(i).Name()] && moves[ai.Method(i).Name()] {
							out = append(out, ai.Method(i).Name())
						}
					}
					return out
				}
				for _, f := range p.Syntax {
					if strings.HasSuffix(c.Prog.Fset.Position(f.Pos()).Filename, "_test.go") {
						continue
					}
					ast.Inspect(f, func(x ast.Node) bool {
						ta, ok := x.(*ast.TypeAssertExpr)
						if !ok {
							return true
						}
						v := ioParam(ta.X)
						if v == nil {
							return true
						}
						var asserted []ast.Expr
						if ta.Type != nil {
							asserted = append(asserted, ta.Type)
						} else if sw, ok := enclosingTypeSwitch(m, p, ta); ok {
							for _, cl := range sw.Body.List {
								asserted = append(asserted, cl.(*ast.CaseClause).List...)
							}
						}
						for _, te := range asserted {
							t := info.TypeOf(te)
							if t == nil {
								continue
							}
							n++
							key := fmt.Sprintf("%s.%s/asserts-%s-to-%s", model.ShortPkg(p.PkgPath), enclosingDeclName(m, p, ta), v.Name(), types.ExprString(te))
							if ex := extra(v.Type(), t); len(ex) > 0 {
								c.Violation(key, ta.Pos(), "the caller's %s (%s) is asserted to %s to obtain %s: the plugin acts on the handed-over object beyond reading/writing and closing it", v.Name(), v.Type(), types.ExprString(te), strings.Join(ex, ", "))
							} else {
								c.OK(key, ta.Pos(), "adds no method that moves or rewrites the handed-over object")
							}
						}
						return true
					})
				}
			}
			c.Inc("io_param_assertions", n)
		},
	}
}

func enclosingTypeSwitch(m *model.Model, p *packages.Package, n ast.Node) (*ast.TypeSwitchStmt, bool) {
	for c := m.Parent(p, n); c != nil; c = m.Parent(p, c) {
		switch y := c.(type) {
		case *ast.TypeSwitchStmt:
			return y, true
		case *ast.FuncLit, *ast.FuncDecl, *ast.BlockStmt:
			return nil, false
		}
	}
	return nil, false
}

func enclosingDeclName(m *model.Model, p *packages.Package, n ast.Node) string {
	for _, f := range m.EnclosingFuncs(p, n) {
		if fd, ok := f.(*ast.FuncDecl); ok {
			return model.DeclName(fd)
		}
	}
	return "?"
}

// READ-DATA-BEFORE-ERROR: the contract of io.Reader.Read.
func ruleReadDataBeforeError() check.Rule {
	return check.Rule{
		Name:        "READ-DATA-BEFORE-ERROR",
		NeedControl: true,
		Doc:         "io.Reader: \"Callers should always process the n > 0 bytes returned before considering the error err\" — a Read may return the last bytes together with io.EOF or with a failure. For every call `n, err := r.Read(buf)` on a value whose static type is an interface, in the data plugins: the count n is used before the first test of err that follows the call, or inside the failure branch of that test. A reader observable that looks at err first drops the final chunk, so the concatenation of what it emits is not the input",
		Run: func(c *check.Ctx) {
			m := c.M
			n := 0
			for _, p := range m.Pkgs {
				armed := c.ArmedPkg(p.PkgPath)
				if !strings.Contains(p.PkgPath, "/plugins/") && !check.IsControlName("") {
					// controls live in package ro
				}
				info := p.TypesInfo
				for _, fn := range funcNodes(p) {
					body := funcBody(fn)
					if body == nil {
						continue
					}
					k := 0
					ast.Inspect(body, func(x ast.Node) bool {
						if l, ok := x.(*ast.FuncLit); ok && ast.Node(l) != fn {
							return false
						}
						as, ok := x.(*ast.AssignStmt)
						if !ok || len(as.Lhs) != 2 || len(as.Rhs) != 1 {
							return true
						}
						call, ok := ast.Unparen(as.Rhs[0]).(*ast.CallExpr)
						if !ok {
							return true
						}
						sel, ok := ast.Unparen(call.Fun).(*ast.SelectorExpr)
						if !ok || sel.Sel.Name != "Read" || len(call.Args) != 1 {
							return true
						}
						rt := info.TypeOf(sel.X)
						if rt == nil {
							return true
						}
						if _, isIface := rt.Underlying().(*types.Interface); !isIface {
							return true // a concrete reader: its own documentation applies
						}
						sig, _ := info.TypeOf(sel).(*types.Signature)
						if sig == nil || sig.Results().Len() != 2 || !isErrorType(sig.Results().At(1).Type()) {
							return true
						}
						nID, _ := as.Lhs[0].(*ast.Ident)
						eID, _ := as.Lhs[1].(*ast.Ident)
						if nID == nil || eID == nil || nID.Name == "_" || eID.Name == "_" {
							return true
						}
						nObj, eObj := objOf(info, nID), objOf(info, eID)
						n++
						k++
						key := fmt.Sprintf("%s/read#%d-data-before-error", chainKey(m, p, m.EnclosingFuncs(p, fn), scLits(m)), k)
						// the first if (or switch) after the call whose condition mentions err
						var test ast.Node
						var failure ast.Node
						ast.Inspect(body, func(y ast.Node) bool {
							if test != nil || y == nil || y.Pos() < as.End() {
								return test == nil
							}
							mentionsErr := func(e ast.Node) bool {
								f := false
								if e == nil {
									return false
								}
								ast.Inspect(e, func(z ast.Node) bool {
									if id, ok := z.(*ast.Ident); ok && objOf(info, id) == eObj {
										f = true
									}
									return !f
								})
								return f
							}
							switch s := y.(type) {
							case *ast.IfStmt:
								if mentionsErr(s.Cond) {
									test, failure = s, s.Body
								}
							case *ast.SwitchStmt:
								if s.Tag != nil && mentionsErr(s.Tag) {
									test, failure = s, s.Body
								}
							}
							return test == nil
						})
						usesN := func(root ast.Node, from, to token.Pos) bool {
							f := false
							ast.Inspect(root, func(z ast.Node) bool {
								if id, ok := z.(*ast.Ident); ok && id != nID && objOf(info, id) == nObj && id.Pos() >= from && id.Pos() < to {
									f = true
								}
								return !f
							})
							return f
						}
						switch {
						case test == nil:
							if armed {
								c.OK(key, call.Pos(), "the error is not tested in this function after the call")
							}
						case usesN(body, as.End(), test.Pos()):
							if armed {
								c.OK(key, call.Pos(), "the bytes read are processed before the error is considered")
							}
						case failure != nil && usesN(failure, failure.Pos(), failure.End()):
							if armed {
								c.OK(key, call.Pos(), "the failure branch processes the bytes read")
							}
						default:
							c.Report(armed, key, test.Pos(), "the result of Read is tested for an error before — and its failure branch leaves without — looking at the %s bytes that were read: a reader that returns its last bytes together with io.EOF (or with a failure) loses them, the emitted chunks no longer add up to the input", nID.Name)
						}
						return true
					})
				}
			}
			c.Inc("interface_read_calls", n)
		},
	}
}

const controlsReadDataBeforeError = `
func verifControlReadErrFirst(r interface{ Read(p []byte) (int, error) }, out func([]byte)) {
	buf := make([]byte, 16)
	for {
		n, err := r.Read(buf)
		if err != nil {
			return
		}
		out(buf[:n])
	}
}
`

// FLUSH-ERROR-CHECKED: a buffered writer whose Flush reports through Error() is asked before the stream completes.
func ruleFlushErrorChecked() check.Rule {
	return check.Rule{
		Name:        "FLUSH-ERROR-CHECKED",
		NeedControl: true,
		Doc:         "for every call x.Flush() on a type whose Flush returns nothing and that has an `Error() error` method (encoding/csv.Writer: \"To check if an error occurred during Flush, call Error\") inside a callback that afterwards sends Complete to the destination: x.Error() is called between the Flush and the Complete. The rows are buffered, so the failure of the underlying writer surfaces at Flush only; a sink that completes without asking reports success — Next(count), Complete — although nothing was written",
		Run: func(c *check.Ctx) {
			m := c.M
			n := 0
			for _, sc := range m.SCs {
				armed := c.Armed(sc)
				if !armed && !check.IsControlName(sc.Name) {
					continue
				}
				info := sc.Pkg.TypesInfo
				for _, fn := range append([]ast.Node{sc.Lit}, nestedLits(sc.Lit)...) {
					body := funcBody(fn)
					var flushes []*ast.CallExpr
					ast.Inspect(body, func(x ast.Node) bool {
						if l, ok := x.(*ast.FuncLit); ok && ast.Node(l) != fn {
							return false
						}
						call, ok := x.(*ast.CallExpr)
						if !ok {
							return true
						}
						sel, ok := ast.Unparen(call.Fun).(*ast.SelectorExpr)
						if !ok || sel.Sel.Name != "Flush" || len(call.Args) != 0 {
							return true
						}
						if sig, _ := info.TypeOf(sel).(*types.Signature); sig == nil || sig.Results().Len() != 0 {
							return true
						}
						rt := info.TypeOf(sel.X)
						if rt == nil {
							return true
						}
						if o, _, _ := types.LookupFieldOrMethod(rt, true, sc.Pkg.Types, "Error"); o != nil {
							if f, ok := o.(*types.Func); ok {
								if s2, _ := f.Type().(*types.Signature); s2 != nil && s2.Params().Len() == 0 && s2.Results().Len() == 1 && isErrorType(s2.Results().At(0).Type()) {
									flushes = append(flushes, call)
								}
							}
						}
						return true
					})
					for _, fl := range flushes {
						// a Complete sent to the destination later in the same function
						var complete *model.EmitSite
						for _, e := range sc.Emits {
							if e.ToDest && e.Kind == model.EmitComplete && e.Pos > fl.End() && e.Pos < body.End() && innermostFunc(m, sc.Pkg, e.Node) == fn {
								complete = e
								break
							}
						}
						if complete == nil {
							continue
						}
						n++
						key := fmt.Sprintf("%s/flush-error-checked", complete.Key)
						asked := false
						recv := ast.Unparen(fl.Fun).(*ast.SelectorExpr).X
						ast.Inspect(body, func(x ast.Node) bool {
							call, ok := x.(*ast.CallExpr)
							if !ok || call.Pos() < fl.End() || call.Pos() > complete.Pos {
								return true
							}
							if sel, ok := ast.Unparen(call.Fun).(*ast.SelectorExpr); ok && sel.Sel.Name == "Error" && len(call.Args) == 0 && sameLvalue(info, sel.X, recv) {
								asked = true
							}
							return true
						})
						if asked {
							if armed {
								c.OK(key, fl.Pos(), "Error() is consulted between the Flush and the Complete")
							}
						} else {
							c.Report(armed, key, complete.Pos, "Complete is sent after %s.Flush() without asking %s.Error(): a failure of the underlying writer (which the buffering defers to the flush) is reported as a successful completion", types.ExprString(recv), types.ExprString(recv))
						}
					}
				}
			}
			c.Inc("flush_then_complete_sites", n)
		},
	}
}

func nestedLits(root *ast.FuncLit) []ast.Node {
	var out []ast.Node
	ast.Inspect(root.Body, func(x ast.Node) bool {
		if l, ok := x.(*ast.FuncLit); ok {
			out = append(out, l)
		}
		return true
	})
	return out
}

const controlsFlushError = `
type verifControlFlusher struct{ err error }

func (f *verifControlFlusher) Flush()       {}
func (f *verifControlFlusher) Error() error { return f.err }

func verifControlFlushNotAsked[T any](w *verifControlFlusher) func(Observable[T]) Observable[T] {
	return func(source Observable[T]) Observable[T] {
		return NewUnsafeObservableWithContext(func(subscriberCtx context.Context, destination Observer[T]) Teardown {
			sub := source.SubscribeWithContext(subscriberCtx, NewObserverWithContext(
				destination.NextWithContext,
				destination.ErrorWithContext,
				func(ctx context.Context) {
					w.Flush()
					destination.CompleteWithContext(ctx)
				},
			))
			return sub.Unsubscribe
		})
	}
}
`

// READLINE-PREFIX-USED: the isPrefix result of (*bufio.Reader).ReadLine is looked at.
func ruleReadLinePrefixUsed() check.Rule {
	return check.Rule{
		Name:        "READLINE-PREFIX-USED",
		NeedControl: true,
		Doc:         "(*bufio.Reader).ReadLine returns a fragment and isPrefix == true when the line does not fit the reader's buffer (4096 bytes by default). Every call in the data plugins binds isPrefix to a variable that is read afterwards: a line reader that discards it emits a long line as several lines, so what it emits is not the sequence of lines of its input",
		Run: func(c *check.Ctx) {
			m := c.M
			n := 0
			for _, p := range m.Pkgs {
				armed := c.ArmedPkg(p.PkgPath)
				info := p.TypesInfo
				for _, f := range p.Syntax {
					if strings.HasSuffix(c.Prog.Fset.Position(f.Pos()).Filename, "_test.go") {
						continue
					}
					perDecl := map[string]int{}
					ast.Inspect(f, func(x ast.Node) bool {
						as, ok := x.(*ast.AssignStmt)
						if !ok || len(as.Rhs) != 1 || len(as.Lhs) != 3 {
							return true
						}
						call, ok := ast.Unparen(as.Rhs[0]).(*ast.CallExpr)
						if !ok || !model.IsMethod(model.Callee(info, call), "bufio", "Reader", "ReadLine") {
							return true
						}
						n++
						dn := enclosingDeclName(m, p, as)
						perDecl[dn]++
						key := fmt.Sprintf("%s.%s/readline#%d-prefix-used", model.ShortPkg(p.PkgPath), dn, perDecl[dn])
						id, _ := as.Lhs[1].(*ast.Ident)
						used := false
						if id != nil && id.Name != "_" {
							o := objOf(info, id)
							ast.Inspect(f, func(z ast.Node) bool {
								if u, ok := z.(*ast.Ident); ok && u != id && objOf(info, u) == o {
									used = true
								}
								return !used
							})
						}
						if used {
							if armed {
								c.OK(key, call.Pos(), "isPrefix is read")
							}
						} else {
							c.Report(armed, key, call.Pos(), "the isPrefix result of ReadLine is discarded: a line longer than the reader's buffer is delivered as several lines")
						}
						return true
					})
				}
			}
			c.Inc("readline_calls", n)
		},
	}
}

const controlsReadLine = `
func verifControlReadLineNoPrefix(r *bufio.Reader) ([]byte, error) {
	line, _, err := r.ReadLine()
	return line, err
}
`

package rules

import (
	"fmt"
	"go/ast"
	"go/token"
	"go/types"

	"rocheck/internal/check"
)

// QUEUE-FIFO: slices that an operator or subject uses as a queue are consumed from the end they were not filled at.
func ruleQueueFIFO() check.Rule {
	return check.Rule{
		Name: "QUEUE-FIFO",
		Doc:  "for every slice-typed state (a variable captured by callbacks, a field of the receiver, or a slice reached through a pointer parameter) that is filled with `q = append(q, x)`: it is never filled at the head (`append([]T{x}, q...)`), never trimmed at the tail (`q = q[:n]` other than the reset `q[:0]`), and in a function that drops its head (`q = q[k:]` with a constant k) the elements read by index are read at constant indexes below k (`q[0]` with `q[1:]`): the order in which the queue is left is the order in which it was entered",
		Run: func(c *check.Ctx) {
			m := c.M
			scs := scLits(m)
			for _, p := range m.Pkgs {
				armed := c.ArmedPkg(p.PkgPath)
				info := p.TypesInfo
				// queues: path keys with an append-at-tail write somewhere in the package
				queues := map[string]token.Pos{}
				isSelfAppend := func(as *ast.AssignStmt) (string, *ast.CallExpr) {
					if len(as.Lhs) != 1 || len(as.Rhs) != 1 {
						return "", nil
					}
					call, ok := ast.Unparen(as.Rhs[0]).(*ast.CallExpr)
					if !ok || len(call.Args) < 2 {
						return "", nil
					}
					if id, ok := ast.Unparen(call.Fun).(*ast.Ident); !ok || id.Name != "append" {
						return "", nil
					} else if _, isB := info.Uses[id].(*types.Builtin); !isB {
						return "", nil
					}
					k := queueKey(info, as.Lhs[0])
					if k == "" {
						return "", nil
					}
					return k, call
				}
				for _, f := range p.Syntax {
					ast.Inspect(f, func(n ast.Node) bool {
						if as, ok := n.(*ast.AssignStmt); ok {
							if k, call := isSelfAppend(as); k != "" && queueKey(info, call.Args[0]) == k && !call.Ellipsis.IsValid() {
								if _, seen := queues[k]; !seen {
									queues[k] = as.Pos()
								}
							}
						}
						return true
					})
				}
				for _, fn := range funcNodes(p) {
					body := funcBody(fn)
					if body == nil {
						continue
					}
					chain := m.EnclosingFuncs(p, fn)
					fkey := chainKey(m, p, chain, scs)
					headDrop := map[string]int64{}
					ast.Inspect(body, func(n ast.Node) bool {
						if l, ok := n.(*ast.FuncLit); ok && ast.Node(l) != fn {
							return false
						}
						as, ok := n.(*ast.AssignStmt)
						if !ok || len(as.Lhs) != 1 || len(as.Rhs) != 1 {
							return true
						}
						k := queueKey(info, as.Lhs[0])
						if k == "" {
							return true
						}
						_, isQ := queues[k]
						switch r := ast.Unparen(as.Rhs[0]).(type) {
						case *ast.SliceExpr:
							if queueKey(info, r.X) != k {
								return true
							}
							c.Inc("queue_reslices", 1)
							key := fmt.Sprintf("%s/queue-%s-reslice", fkey, shortKey(k))
							switch {
							case r.Low == nil && r.High != nil && isQ:
								if v, ok := constVal(info, r.High); ok && v == 0 {
									if armed {
										c.OK(key, as.Pos(), "reset to empty")
									}
								} else {
									c.Report(armed, key, as.Pos(), "the queue is trimmed at its tail (%s = %s[:n]) although it is filled at its tail: the newest element leaves first", shortKey(k), shortKey(k))
								}
							case r.Low != nil && r.High == nil:
								if v, ok := constVal(info, r.Low); ok && v >= 1 {
									headDrop[k] = v
								}
								if armed {
									c.OK(key, as.Pos(), "drops from the head")
								}
							}
						case *ast.CallExpr:
							// prepend: append(<literal or other slice>, q...)
							if id, ok := ast.Unparen(r.Fun).(*ast.Ident); ok && isQ && id.Name == "append" && r.Ellipsis.IsValid() && len(r.Args) == 2 && queueKey(info, r.Args[1]) == k && queueKey(info, r.Args[0]) != k {
								c.Report(armed, fmt.Sprintf("%s/queue-%s-prepend", fkey, shortKey(k)), as.Pos(), "the queue is filled at its head here and at its tail elsewhere: elements leave in an order different from the one they entered in")
							}
						}
						return true
					})
					for k, drop := range headDrop {
						ast.Inspect(body, func(n ast.Node) bool {
							if l, ok := n.(*ast.FuncLit); ok && ast.Node(l) != fn {
								return false
							}
							ix, ok := n.(*ast.IndexExpr)
							if !ok || queueKey(info, ix.X) != k {
								return true
							}
							c.Inc("queue_head_reads", 1)
							key := fmt.Sprintf("%s/queue-%s-head-read", fkey, shortKey(k))
							if v, ok := constVal(info, ix.Index); ok && v >= 0 && v < drop {
								if armed {
									c.OK(key, ix.Pos(), "reads index %d, drops %d from the head", v, drop)
								}
							} else {
								c.Report(armed, key, ix.Pos(), "the function drops %d element(s) from the head of the queue but reads it at an index that is not a constant below %d: the element that is delivered is not the one that is removed (a queue read at the tail and dropped at the head delivers out of order and repeats)", drop, drop)
							}
							return true
						})
					}
				}
				c.Inc("queues", len(queues))
			}
		},
	}
}

// queueKey: pathKey that also looks through a pointer dereference (*values).
func queueKey(info *types.Info, e ast.Expr) string {
	e = ast.Unparen(e)
	if st, ok := e.(*ast.StarExpr); ok {
		if k := pathKey(info, st.X); k != "" {
			return "*" + k
		}
		return ""
	}
	k := pathKey(info, e)
	if k == "" {
		return ""
	}
	if t := info.TypeOf(e); t != nil {
		if _, isSlice := t.Underlying().(*types.Slice); !isSlice {
			return ""
		}
	}
	return k
}

func shortKey(k string) string {
	out := ""
	depth := 0
	for _, r := range k {
		switch {
		case r == '@':
			depth = 1
		case r == '.':
			depth = 0
			out += "."
		case depth == 0:
			out += string(r)
		}
	}
	return out
}

package rules

import (
	"fmt"
	"go/ast"
	"go/token"
	"go/types"

	"rocheck/internal/check"
	"rocheck/internal/load"
	"rocheck/internal/model"
)

// CLOSE-ONCE
func ruleCloseOnce() check.Rule {
	return check.Rule{
		Name:        "CLOSE-ONCE",
		Doc:         "every close() of a channel created by a subscribe closure is either its only close site and located in the teardown (which runs once, C03), or all close sites of that channel are inside the function passed to one sync.Once.Do",
		NeedControl: true,
		Run: func(c *check.Ctx) {
			m := c.M
			for _, sc := range m.SCs {
				armed := c.Armed(sc)
				info := sc.Pkg.TypesInfo
				// channels created in the SC
				chans := map[types.Object]bool{}
				ast.Inspect(sc.Lit.Body, func(n ast.Node) bool {
					as, ok := n.(*ast.AssignStmt)
					if !ok || len(as.Lhs) != 1 || len(as.Rhs) != 1 {
						return true
					}
					if call, ok := ast.Unparen(as.Rhs[0]).(*ast.CallExpr); ok {
						if id, ok := ast.Unparen(call.Fun).(*ast.Ident); ok {
							if b, ok := info.Uses[id].(*types.Builtin); ok && b.Name() == "make" {
								if t := info.TypeOf(call); t != nil {
									if _, isChan := t.Underlying().(*types.Chan); isChan {
										if lid, ok := as.Lhs[0].(*ast.Ident); ok {
											chans[objOf(info, lid)] = true
										}
									}
								}
							}
						}
					}
					return true
				})
				if len(chans) == 0 {
					continue
				}
				// syntactic close sites per channel
				type site struct {
					call   *ast.CallExpr
					inOnce bool
				}
				sites := map[types.Object][]site{}
				ast.Inspect(sc.Lit.Body, func(n ast.Node) bool {
					call, ok := n.(*ast.CallExpr)
					if !ok || len(call.Args) != 1 {
						return true
					}
					id, ok := ast.Unparen(call.Fun).(*ast.Ident)
					if !ok {
						return true
					}
					if b, ok := info.Uses[id].(*types.Builtin); !ok || b.Name() != "close" {
						return true
					}
					rid, _ := rootIdent(call.Args[0])
					ch := objOf(info, rid)
					if !chans[ch] {
						return true
					}
					inOnce := false
					for cn := ast.Node(call); cn != nil && cn != ast.Node(sc.Lit); cn = m.Parent(sc.Pkg, cn) {
						if lit, ok := cn.(*ast.FuncLit); ok {
							if pc, ok := m.Parent(sc.Pkg, lit).(*ast.CallExpr); ok && model.IsMethod(model.Callee(info, pc), "sync", "Once", "Do") {
								inOnce = true
							}
							// the literal is bound to a local closure whose every use is the argument of a sync.Once.Do
							if as, ok := m.Parent(sc.Pkg, lit).(*ast.AssignStmt); ok && len(as.Lhs) == 1 {
								if vid, ok := as.Lhs[0].(*ast.Ident); ok {
									if v := objOf(info, vid); v != nil {
										uses, onceUses := 0, 0
										ast.Inspect(sc.Lit.Body, func(y ast.Node) bool {
											if id, ok := y.(*ast.Ident); ok && info.Uses[id] == v {
												uses++
												if pc, ok := m.Parent(sc.Pkg, id).(*ast.CallExpr); ok && model.IsMethod(model.Callee(info, pc), "sync", "Once", "Do") && len(pc.Args) == 1 && ast.Unparen(pc.Args[0]) == ast.Expr(id) {
													onceUses++
												}
											}
											return true
										})
										if uses > 0 && uses == onceUses {
											inOnce = true
										}
									}
								}
							}
						}
					}
					sites[ch] = append(sites[ch], site{call, inOnce})
					return true
				})
				for ch := range chans {
					c.Inc("channels", 1)
					key := fmt.Sprintf("%s/%s/close", sc, chanLabel(sc, ch))
					ss := sites[ch]
					switch {
					case len(ss) == 0 && chanConsumed(m, sc, ch):
						c.Report(armed, key, ch.Pos(), "the channel is handed to a consumer (emitted to the destination, ranged over or received from) but the operator never closes it: the consumer's loop never ends")
					case len(ss) == 0:
						if armed {
							c.OK(key, ch.Pos(), "never closed by the operator and never handed to a consumer")
						}
					case allOnce(ss, func(s site) bool { return s.inOnce }):
						if armed {
							c.OK(key, ss[0].call.Pos(), "all %d close site(s) are inside sync.Once.Do", len(ss))
						}
					case len(ss) == 1:
						// the single close must execute only in teardown contexts
						okTeardown := false
						bad := false
						for _, op := range sc.SubOps {
							if op.Method == "close" && op.Call == ss[0].call {
								if teardownOf(op.Ctx) != nil {
									okTeardown = true
								} else {
									bad = true
								}
							}
						}
						if okTeardown && !bad {
							if armed {
								c.OK(key, ss[0].call.Pos(), "single close site, executed only by the teardown (runs once)")
							}
						} else {
							c.Report(armed, key, ss[0].call.Pos(), "the channel is closed outside sync.Once and outside the teardown: it can be closed twice (panic) or while a producer still sends")
						}
					default:
						c.Report(armed, key, ss[0].call.Pos(), "the channel has %d close sites that are not all inside one sync.Once.Do: a double close panics", len(ss))
					}
					// a channel handed to a consumer carries what the source notified, nothing else: every send into it is made
					// from a callback of a source (a send from the teardown invents a notification: a Complete the source never
					// emitted), and the variable that holds it is never re-bound (a producer blocked on the closed channel would
					// park on the new value — nil — for ever)
					if chanConsumed(m, sc, ch) {
						ast.Inspect(sc.Lit.Body, func(n ast.Node) bool {
							switch st := n.(type) {
							case *ast.SendStmt:
								if id, _ := rootIdent(st.Chan); id == nil || objOf(info, id) != ch {
									return true
								}
								fn := innermostFunc(m, sc.Pkg, st)
								for _, fp := range sc.FnPlaces[fn] {
									if teardownOf(fp.Ctx) != nil {
										c.Report(armed, fmt.Sprintf("%s/%s/send-from-teardown", sc, chanLabel(sc, ch)), st.Pos(), "the teardown sends into the channel that was handed to the consumer: the consumer receives a notification the source never emitted")
									}
								}
							case *ast.AssignStmt:
								if st.Tok == token.DEFINE {
									return true
								}
								for _, l := range st.Lhs {
									if id, ok := ast.Unparen(l).(*ast.Ident); ok && objOf(info, id) == ch {
										c.Report(armed, fmt.Sprintf("%s/%s/rebound", sc, chanLabel(sc, ch)), st.Pos(), "the variable that holds the handed-out channel is assigned again: senders and the consumer no longer share one channel (a producer that was blocked on the closed channel retries on the new value and, if it is nil, parks for ever)")
									}
								}
							}
							return true
						})
					}
					// a channel the operator sends into must have a consumer
					if !chanConsumed(m, sc, ch) {
						var send *ast.SendStmt
						ast.Inspect(sc.Lit.Body, func(n ast.Node) bool {
							if st, ok := n.(*ast.SendStmt); ok {
								if id, _ := rootIdent(st.Chan); id != nil && objOf(info, id) == ch {
									send = st
								}
							}
							return send == nil
						})
						if send != nil {
							c.Report(armed, fmt.Sprintf("%s/%s/consumed", sc, chanLabel(sc, ch)), send.Pos(), "the operator sends into a channel that it neither emits to the destination nor reads itself: nobody can receive what was sent")
						}
					}
					// closed on unsubscription: some close of the channel executes in a teardown context
					if len(ss) > 0 && chanConsumed(m, sc, ch) {
						inTeardown := false
						for _, op := range sc.SubOps {
							if op.Method != "close" || teardownOf(op.Ctx) == nil {
								continue
							}
							for _, st := range ss {
								if op.Call == st.call {
									inTeardown = true
								}
							}
						}
						tkey := fmt.Sprintf("%s/%s/closed-by-teardown", sc, chanLabel(sc, ch))
						if inTeardown {
							if armed {
								c.OK(tkey, ch.Pos(), "the teardown reaches a close of the channel: an unsubscription ends the consumer's loop")
							}
						} else {
							c.Report(armed, tkey, ch.Pos(), "no close of the channel is reachable from the operator's teardown: after an unsubscription the consumer of the channel waits for ever")
						}
					}
				}
			}
		},
	}
}

// chanConsumed: the channel is emitted to the destination, ranged over, or received from inside the operator.
func chanConsumed(m *model.Model, sc *model.SC, ch types.Object) bool {
	info := sc.Pkg.TypesInfo
	for _, e := range sc.Emits {
		for _, a := range e.Args {
			if id, _ := rootIdent(a); id != nil && objOf(info, id) == ch {
				return true
			}
		}
	}
	found := false
	ast.Inspect(sc.Lit.Body, func(n ast.Node) bool {
		switch x := n.(type) {
		case *ast.RangeStmt:
			if id, _ := rootIdent(x.X); id != nil && objOf(info, id) == ch {
				found = true
			}
		case *ast.UnaryExpr:
			// the receive form of the consumer loop: for { x, ok := <-ch; if !ok { break } … }
			if x.Op == token.ARROW {
				if id, _ := rootIdent(x.X); id != nil && objOf(info, id) == ch {
					found = true
				}
			}
		}
		return !found
	})
	return found
}

func allOnce[T any](xs []T, f func(T) bool) bool {
	for _, x := range xs {
		if !f(x) {
			return false
		}
	}
	return len(xs) > 0
}

// GO-LATE-REGISTRATION: inside a detached goroutine the subscribe call may not return before the source ends.
func ruleGoLateRegistration() check.Rule {
	return check.Rule{
		Name: "GO-LATE-REGISTRATION",
		Doc:  "in a goroutine started by a subscribe closure (the closure has already returned its teardown), no release closure is registered with Add on a subscription after an upstream subscribe call of the same function: a synchronous source keeps that call from returning until it ends, so an unsubscription that arrives meanwhile finds nothing registered and the release (closing the hand-off channel) never happens",
		Run: func(c *check.Ctx) {
			m := c.M
			n := 0
			for _, sc := range m.SCs {
				armed := c.Armed(sc)
				for _, op := range sc.SubOps {
					if op.Method != "Add" || op.Call == nil || op.Ctx == nil || op.Ctx.Kind != model.KGo {
						continue
					}
					fn := innermostFunc(m, op.Pkg, op.Call)
					for _, s := range sc.SubSites {
						if s.Ctx != op.Ctx || innermostFunc(m, s.Pkg, s.Call) != fn || s.Pos > op.Pos {
							continue
						}
						n++
						c.Report(armed, fmt.Sprintf("%s/go/late-registration#%d", sc, n), op.Pos, "a release is registered with Add only after the upstream was subscribed at %s in the same goroutine: with a synchronous source that call returns when the source has ended, so an earlier unsubscription releases nothing", c.Prog.Rel(s.Pos))
					}
				}
			}
			c.Inc("go_late_registrations", n)
		},
	}
}

// SEND-RECOVERED
func ruleSendRecovered() check.Rule {
	return check.Rule{
		Name: "SEND-RECOVERED",
		Doc:  "every send on a channel that the operator may close concurrently happens inside an observer slot (where a send-on-closed-channel panic is recovered by observerImpl) and never in the subscribe body, a bare goroutine or a timer callback",
		Run: func(c *check.Ctx) {
			for _, sc := range c.M.SCs {
				armed := c.Armed(sc)
				closes := map[types.Object]bool{}
				for _, op := range sc.SubOps {
					if op.Method == "close" {
						if id, _ := rootIdent(op.RecvExpr); id != nil {
							closes[objOf(op.Pkg.TypesInfo, id)] = true
						}
					}
				}
				n := 0
				for _, b := range sc.Blocks {
					if b.What != "send" {
						continue
					}
					id, _ := rootIdent(b.Expr)
					if id == nil || !closes[objOf(b.Pkg.TypesInfo, id)] {
						continue
					}
					n++
					c.Inc("sends_on_closable_channels", 1)
					key := fmt.Sprintf("%s/send#%d", sc, n)
					if b.Ctx.Kind == model.KSrc {
						if armed {
							c.OK(key, b.Pos, "send inside the %s slot: a send-on-closed panic is recovered by the observer", model.SlotNames[b.Slot])
						}
					} else {
						c.Report(armed, key, b.Pos, "send on a channel that the operator also closes, outside any observer slot (%s): a send-on-closed-channel panic escapes", model.CtxKey(b.Ctx, b.Slot))
					}
				}
			}
		},
	}
}

// SINK-ON-COMPLETE
func ruleSinkOnComplete() check.Rule {
	return check.Rule{
		Name:        "SINK-ON-COMPLETE",
		FamilyShape: true,
		Doc:         "ToSlice and ToMap emit exactly once, from the completion slot, the container that their next slot fills, followed by the completion; their error slot forwards the error; ToMap stores with output[k] = v (last write wins)",
		Run: func(c *check.Ctx) {
			m := c.M
			n := 0
			for _, name := range []string{"ro.ToSlice", "ro.ToMapIWithContext"} {
				sc := m.SCByName(name)
				if sc == nil {
					c.Info(name+"/sink", m.Obj.Ro.Syntax[0].Pos(), "operator not found (family-shape rule)")
					continue
				}
				n++
				info := sc.Pkg.TypesInfo
				var nexts, completes []*model.EmitSite
				fwdErr := false
				for _, e := range sc.Emits {
					if !e.ToDest {
						continue
					}
					switch e.Kind {
					case model.EmitNext:
						nexts = append(nexts, e)
					case model.EmitComplete:
						completes = append(completes, e)
					case model.EmitError:
						if e.Slot == model.SlotError {
							fwdErr = true
						}
					}
				}
				key := name + "/sink"
				switch {
				case len(nexts) != 1 || nexts[0].Ctx.Kind != model.KSrc || nexts[0].Slot != model.SlotComplete:
					c.Violation(key, sc.Lit.Pos(), "the container is not emitted exactly once from the completion slot (%d value emissions)", len(nexts))
				case len(completes) != 1 || completes[0].Slot != model.SlotComplete || completes[0].BasePos < nexts[0].BasePos:
					c.Violation(key, sc.Lit.Pos(), "the completion does not follow the emission of the container")
				case !fwdErr:
					c.Violation(key, sc.Lit.Pos(), "the error slot does not forward the error")
				default:
					// the emitted variable is the one the next slot fills
					id, _ := rootIdent(nexts[0].Args[0])
					v := objOf(info, id)
					filled := false
					var nextLit *ast.FuncLit
					for _, s := range sc.SubSites {
						if s.Observer != nil && s.Observer.Slots[model.SlotNext] != nil {
							nextLit = s.Observer.Slots[model.SlotNext].Lit
						}
					}
					lastWriteWins := name != "ro.ToMapIWithContext"
					if nextLit != nil {
						for _, w := range writesIn(info, nextLit) {
							if w.Var == v {
								filled = true
							}
						}
						ast.Inspect(nextLit.Body, func(x ast.Node) bool {
							if as, ok := x.(*ast.AssignStmt); ok && as.Tok == token.ASSIGN && len(as.Lhs) == 1 {
								if ix, ok := as.Lhs[0].(*ast.IndexExpr); ok {
									if rid, _ := rootIdent(ix.X); rid != nil && objOf(info, rid) == v {
										lastWriteWins = true
									}
								}
							}
							return true
						})
					}
					if filled && lastWriteWins {
						c.OK(key, nexts[0].Pos, "emits, once and at completion, the container filled by the next slot")
					} else {
						c.Violation(key, nexts[0].Pos, "the emitted container is not the one the next slot fills (filled=%v, plain keyed store=%v)", filled, lastWriteWins)
					}
				}
			}
			c.Note("SINK-ON-COMPLETE recognised=%d", n)
		},
	}
}

// FROM-CHANNEL
func ruleFromChannel() check.Rule {
	return check.Rule{
		Name:        "FROM-CHANNEL",
		FamilyShape: true,
		Doc:         "FromChannel receives with the two-value form, completes and returns when the channel is closed, forwards every received value, selects on a channel that its teardown closes, every receive from the caller's channel is the two-value communication of a select, and the loop polls the teardown's channel (select with default) before each blocking receive",
		Run: func(c *check.Ctx) {
			m := c.M
			sc := m.SCByName("ro.FromChannel")
			if sc == nil {
				c.Info("ro.FromChannel/shape", m.Obj.Ro.Syntax[0].Pos(), "operator not found (family-shape rule)")
				return
			}
			info := sc.Pkg.TypesInfo
			var inParam *types.Var
			if sc.Decl != nil {
				for _, prm := range model.FlattenParams(info, sc.Decl.Type.Params) {
					if prm != nil {
						if _, isChan := prm.Type().Underlying().(*types.Chan); isChan {
							inParam = prm
						}
					}
				}
			}
			key := "ro.FromChannel"
			twoValue, completesOnClose, forwards := false, false, false
			ast.Inspect(sc.Lit.Body, func(n ast.Node) bool {
				cc, ok := n.(*ast.CommClause)
				if !ok || cc.Comm == nil {
					return true
				}
				as, ok := cc.Comm.(*ast.AssignStmt)
				if !ok || len(as.Rhs) != 1 {
					return true
				}
				u, ok := ast.Unparen(as.Rhs[0]).(*ast.UnaryExpr)
				if !ok || u.Op != token.ARROW {
					return true
				}
				if id, _ := rootIdent(u.X); id == nil || objOf(info, id) != inParam {
					return true
				}
				if len(as.Lhs) == 2 {
					twoValue = true
					okVar := objOf(info, as.Lhs[1].(*ast.Ident))
					itemVar := objOf(info, as.Lhs[0].(*ast.Ident))
					for _, s := range cc.Body {
						if ifs, ok := s.(*ast.IfStmt); ok {
							if ue, ok := ast.Unparen(ifs.Cond).(*ast.UnaryExpr); ok && ue.Op == token.NOT {
								if id, ok := ast.Unparen(ue.X).(*ast.Ident); ok && objOf(info, id) == okVar {
									hasComplete, hasReturn := false, false
									ast.Inspect(ifs.Body, func(x ast.Node) bool {
										if call, ok := x.(*ast.CallExpr); ok && shortCallee(info, call) == "CompleteWithContext" {
											hasComplete = true
										}
										if _, ok := x.(*ast.ReturnStmt); ok {
											hasReturn = true
										}
										return true
									})
									completesOnClose = hasComplete && hasReturn
								}
							}
						}
						ast.Inspect(s, func(x ast.Node) bool {
							if call, ok := x.(*ast.CallExpr); ok && shortCallee(info, call) == "NextWithContext" && len(call.Args) == 2 {
								if id, ok := ast.Unparen(call.Args[1]).(*ast.Ident); ok && objOf(info, id) == itemVar {
									forwards = true
								}
							}
							return true
						})
					}
				}
				return true
			})
			if twoValue && completesOnClose && forwards {
				c.OK(key+"/receive", sc.Lit.Pos(), "two-value receive; completes and returns on close; forwards each received value")
			} else {
				c.Violation(key+"/receive", sc.Lit.Pos(), "FromChannel does not (use the two-value receive=%v, complete and return when the channel is closed=%v, forward the received value=%v)", twoValue, completesOnClose, forwards)
			}
			c.Inc("from_channel", 1)
			// every receive from the caller's channel is of that form: the channel may have other consumers, so a count
			// taken from len(in) promises nothing; a plain receive outside the select blocks without watching the
			// teardown, and its one-value form turns a closed channel into zero values that were never sent
			nrecv, bad := 0, 0
			var stack []ast.Node
			ast.Inspect(sc.Lit.Body, func(n ast.Node) bool {
				if n == nil {
					stack = stack[:len(stack)-1]
					return true
				}
				stack = append(stack, n)
				if rs, ok := n.(*ast.RangeStmt); ok {
					if id, _ := rootIdent(rs.X); id != nil && inParam != nil && objOf(info, id) == types.Object(inParam) {
						nrecv++
						bad++
						c.Violation(fmt.Sprintf("%s/receive#%d-guarded", key, nrecv), rs.Pos(), "FromChannel ranges over the caller's channel: the loop blocks in the receive without watching the channel its teardown closes, so it keeps reading (and swallows the next value) after unsubscription")
					}
				}
				u, ok := n.(*ast.UnaryExpr)
				if !ok || u.Op != token.ARROW {
					return true
				}
				if id, _ := rootIdent(u.X); id == nil || inParam == nil || objOf(info, id) != types.Object(inParam) {
					return true
				}
				nrecv++
				// the receive is the right-hand side of the two-value communication of a select clause
				guarded := false
				if len(stack) >= 3 {
					if as, ok := stack[len(stack)-2].(*ast.AssignStmt); ok && len(as.Lhs) == 2 && len(as.Rhs) == 1 && ast.Unparen(as.Rhs[0]) == ast.Expr(u) {
						if cc, ok := stack[len(stack)-3].(*ast.CommClause); ok && cc.Comm == ast.Stmt(as) {
							guarded = true
						}
					}
				}
				if guarded {
					c.OK(fmt.Sprintf("%s/receive#%d-guarded", key, nrecv), u.Pos(), "two-value receive as the communication of a select clause")
				} else {
					bad++
					c.Violation(fmt.Sprintf("%s/receive#%d-guarded", key, nrecv), u.Pos(), "this receive from the caller's channel is not the two-value communication of a select clause: outside the select it blocks without watching unsubscription, and in its one-value form a closed channel yields zero values that are emitted although they were never sent (the channel may have other consumers: what len() counted can be gone)")
				}
				return true
			})
			c.Inc("from_channel_receives", nrecv)
			// "stops reading when unsubscribed": a select picks at random among its ready cases, so once the consumer has
			// unsubscribed from inside its callback (deterministic: same goroutine) the next iteration would still take a
			// buffered value half of the time. The loop therefore polls the channel its teardown closes — a select with
			// that receive and a default clause — before every blocking receive from the caller's channel
			closedByTeardown := map[types.Object]bool{}
			for _, op := range sc.SubOps {
				if op.Method != "close" || op.Call == nil || len(op.Call.Args) != 1 {
					continue
				}
				inTd := false
				for cx := op.Ctx; cx != nil; cx = cx.Parent {
					if cx.Kind == model.KTeardown {
						inTd = true
					}
				}
				if id, _ := rootIdent(op.Call.Args[0]); id != nil && inTd {
					closedByTeardown[objOf(info, id)] = true
				}
			}
			pollsDone := func(sel *ast.SelectStmt) bool {
				hasDefault, hasDone := false, false
				for _, cl := range sel.Body.List {
					cc := cl.(*ast.CommClause)
					if cc.Comm == nil {
						hasDefault = true
						continue
					}
					ast.Inspect(cc.Comm, func(y ast.Node) bool {
						if u, ok := y.(*ast.UnaryExpr); ok && u.Op == token.ARROW {
							if id, _ := rootIdent(u.X); id != nil && closedByTeardown[objOf(info, id)] {
								hasDone = true
							}
						}
						return true
					})
				}
				return hasDefault && hasDone
			}
			ast.Inspect(sc.Lit.Body, func(n ast.Node) bool {
				loop, ok := n.(*ast.ForStmt)
				if !ok {
					return true
				}
				// the blocking select of this loop that receives from the caller's channel
				var recvSel *ast.SelectStmt
				polled := false
				for _, st := range loop.Body.List {
					sel, ok := st.(*ast.SelectStmt)
					if !ok {
						continue
					}
					if pollsDone(sel) {
						polled = true
						continue
					}
					recvIn := false
					ast.Inspect(sel, func(y ast.Node) bool {
						if u, ok := y.(*ast.UnaryExpr); ok && u.Op == token.ARROW {
							if id, _ := rootIdent(u.X); id != nil && inParam != nil && objOf(info, id) == types.Object(inParam) {
								recvIn = true
							}
						}
						return true
					})
					if recvIn && recvSel == nil {
						recvSel = sel
						break
					}
				}
				if recvSel == nil {
					return true
				}
				c.Inc("from_channel_loops", 1)
				if polled {
					c.OK(key+"/polls-unsubscription", recvSel.Pos(), "the loop polls the channel its teardown closes before the blocking receive")
				} else {
					c.Violation(key+"/polls-unsubscription", recvSel.Pos(), "the loop goes back to a select between the caller's channel and the channel its teardown closes without polling the latter first: select picks at random among ready cases, so after the consumer unsubscribed from inside its callback the reader still takes (and drops) a buffered value half of the time — it keeps reading after Unsubscribe returned")
				}
				return true
			})
		},
	}
}

// MATERIALIZE-TABLE
func ruleMaterializeTable() check.Rule {
	return check.Rule{
		Name: "MATERIALIZE-TABLE",
		Doc:  "writer/reader agreement of notifications: NewNotificationNext/Error/Complete set the Kind their name says; Materialize's slots build the notification of the same kind and complete after a terminal one; ToChannel's slots send the notification of the same kind; the processNotification* dispatchers are exhaustive and kind-exact (Dematerialize, detachOn, Delay read through them)",
		Run: func(c *check.Ctx) {
			m := c.M
			p := m.Obj.Ro
			info := p.TypesInfo
			want := map[string]string{"NewNotificationNext": "KindNext", "NewNotificationError": "KindError", "NewNotificationComplete": "KindComplete"}
			for fn, kind := range want {
				fd := load.FuncDeclOf(p, fn)
				key := "ro." + fn + "/kind"
				if fd == nil || fd.Body == nil {
					c.Undecided(key, p.Syntax[0].Pos(), "anchor not found")
					continue
				}
				got := ""
				ast.Inspect(fd.Body, func(n ast.Node) bool {
					if kv, ok := n.(*ast.KeyValueExpr); ok {
						if k, ok := kv.Key.(*ast.Ident); ok && k.Name == "Kind" {
							if id, ok := ast.Unparen(kv.Value).(*ast.Ident); ok {
								got = id.Name
							}
						}
					}
					return true
				})
				c.Inc("notification_constructors", 1)
				if got == kind {
					c.OK(key, fd.Pos(), "sets Kind: %s", kind)
				} else {
					c.Violation(key, fd.Pos(), "%s sets Kind to %q, expected %s", fn, got, kind)
				}
			}
			ctorOfSlot := [3]string{"NewNotificationNext", "NewNotificationError", "NewNotificationComplete"}
			// Materialize: slot k emits Next(NewNotification<k>) ; terminal slots then complete
			// the readers hand every notification they receive to a dispatcher together with the destination
			for _, name := range []string{"ro.Dematerialize"} {
				sc := m.SCByName(name)
				if sc == nil {
					continue
				}
				key := name + "/dispatches"
				ok := false
				for _, st := range sc.SubSites {
					if st.Observer == nil || st.Observer.Kind != model.AVObserver {
						continue
					}
					if sl := st.Observer.Slots[model.SlotNext]; sl != nil && sl.Lit != nil {
						ast.Inspect(sl.Lit.Body, func(x ast.Node) bool {
							if call, isCall := x.(*ast.CallExpr); isCall {
								for _, a := range call.Args {
									if id, isID := ast.Unparen(a).(*ast.Ident); isID && sc.Dest != nil && objOf(sc.Pkg.TypesInfo, id) == types.Object(sc.Dest) {
										ok = true
									}
								}
							}
							return true
						})
						for _, e := range sc.Emits {
							if e.ToDest && e.Ctx == st.Src && e.Slot == model.SlotNext {
								ok = true
							}
						}
					}
				}
				if ok {
					c.OK(key, sc.Lit.Pos(), "the next slot hands each notification and the destination to the dispatcher")
				} else {
					c.Violation(key, sc.Lit.Pos(), "the next slot of %s neither dispatches the received notification to the destination nor emits anything: every materialised notification is dropped", name)
				}
			}
			if sc := m.SCByName("ro.Materialize"); sc != nil {
				for k := 0; k < 3; k++ {
					key := fmt.Sprintf("ro.Materialize/slot-%s", model.SlotNames[k])
					var next *model.EmitSite
					completes := false
					for _, e := range sc.Emits {
						if e.Ctx.Kind == model.KSrc && e.Slot == k && e.ToDest {
							if e.Kind == model.EmitNext {
								next = e
							}
							if e.Kind == model.EmitComplete {
								completes = true
							}
						}
					}
					ctor := ""
					if next != nil && len(next.Args) == 1 {
						if call, ok := ast.Unparen(next.Args[0]).(*ast.CallExpr); ok {
							if cl := model.Callee(info, call); cl != nil {
								ctor = cl.Name()
							}
						}
					}
					switch {
					case ctor != ctorOfSlot[k]:
						c.Violation(key, sc.Lit.Pos(), "the %s slot emits a notification built with %q, expected %s", model.SlotNames[k], ctor, ctorOfSlot[k])
					case k != 0 && !completes:
						c.Violation(key, sc.Lit.Pos(), "the %s slot does not complete the materialized stream after the terminal notification", model.SlotNames[k])
					default:
						c.OK(key, next.Pos, "emits %s%s", ctor, map[bool]string{true: " then completes", false: ""}[k != 0])
					}
				}
			} else {
				c.Undecided("ro.Materialize/anchor", p.Syntax[0].Pos(), "operator not found")
			}
			// ToChannel: slot k sends NewNotification<k>
			if sc := m.SCByName("ro.ToChannel"); sc != nil {
				for _, b := range sc.Blocks {
					if b.What != "send" || b.Ctx.Kind != model.KSrc {
						continue
					}
					key := fmt.Sprintf("ro.ToChannel/slot-%s-sends", model.SlotNames[b.Slot])
					send, _ := b.Node.(*ast.SendStmt)
					ctor := ""
					if send != nil {
						if call, ok := ast.Unparen(send.Value).(*ast.CallExpr); ok {
							if cl := model.Callee(b.Pkg.TypesInfo, call); cl != nil {
								ctor = cl.Name()
							}
						}
					}
					if ctor == ctorOfSlot[b.Slot] {
						c.OK(key, b.Pos, "sends %s", ctor)
					} else {
						c.Violation(key, b.Pos, "the %s slot sends a notification built with %q, expected %s", model.SlotNames[b.Slot], ctor, ctorOfSlot[b.Slot])
					}
				}
			}
			// detachOn: slot k sends lo.T2(ctx, NewNotification<k>)
			if sc := m.SCByName("ro.detachOn"); sc != nil {
				seen := map[int]bool{}
				for _, b := range sc.Blocks {
					if b.What != "send" || b.Ctx.Kind != model.KSrc || seen[b.Slot] {
						continue
					}
					seen[b.Slot] = true
					key := fmt.Sprintf("ro.detachOn/slot-%s-sends", model.SlotNames[b.Slot])
					send, _ := b.Node.(*ast.SendStmt)
					ctor := ""
					if send != nil {
						ast.Inspect(send.Value, func(x ast.Node) bool {
							if call, ok := x.(*ast.CallExpr); ok {
								if cl := model.Callee(b.Pkg.TypesInfo, call); cl != nil && cl.Pkg() != nil && cl.Pkg().Path() == ro {
									ctor = cl.Name()
								}
							}
							return true
						})
					}
					if ctor == ctorOfSlot[b.Slot] {
						c.OK(key, b.Pos, "queues %s", ctor)
					} else {
						c.Violation(key, b.Pos, "the %s slot queues a notification built with %q, expected %s", model.SlotNames[b.Slot], ctor, ctorOfSlot[b.Slot])
					}
				}
			}
			checkNotificationDispatch(c)
		},
	}
}

const controlsC17 = `
func verifControlDoubleClose[T any]() func(Observable[T]) Observable[T] {
	return func(source Observable[T]) Observable[T] {
		return NewObservableWithContext(func(subscriberCtx context.Context, destination Observer[T]) Teardown {
			done := make(chan struct{})
			sub := source.SubscribeWithContext(subscriberCtx, NewObserverWithContext(
				destination.NextWithContext,
				destination.ErrorWithContext,
				func(ctx context.Context) { close(done); destination.CompleteWithContext(ctx) }))
			return func() {
				sub.Unsubscribe()
				close(done)
			}
		})
	}
}
`

func C17() *check.Property {
	return &check.Property{
		ID:       "C17",
		Title:    "Bridges to slices, maps and channels are exact and close exactly once",
		Patterns: CorePatterns,
		Scope:    []string{ro},
		Rules:    []check.Rule{ruleCloseOnce(), ruleSendRecovered(), ruleBoundedQueue(), ruleSinkOnComplete(), ruleFromChannel(), ruleMaterializeTable(), ruleCollectWaits(), ruleStateLevel(), ruleTerminalPropagation(), ruleDeadEmission(), ruleLateEmission(), ruleGoLateRegistration(), ruleCtxDoneTerminates(), ruleTerminalReleaseAgreement(), ruleCtxProvenance(), ruleSlotCtxArgument(), ruleCtxPairing(), ruleTeardownAllRun()},
		Explanation: "Static typestate/table checks of the bridges. CLOSE-ONCE: each channel created by an operator is closed either from a single teardown-only site or exclusively inside one sync.Once.Do; SEND-RECOVERED: sends on a channel the operator also closes " +
			"happen only inside observer slots, where a send-on-closed panic is recovered; BOUNDED-QUEUE: ToChannel/detachOn queue all three notification kinds, terminal ones before the close, and the teardown closes too; SINK-ON-COMPLETE: ToSlice/ToMap emit once, at completion, " +
			"the container their next slot fills (keyed store: last write wins); FROM-CHANNEL: two-value receive, complete-and-return on close, stop channel; MATERIALIZE-TABLE: the notification constructors, the writers (Materialize, ToChannel, detachOn) and the readers " +
			"(processNotification dispatch used by Dematerialize) agree kind by kind, hence Materialize followed by Dematerialize is the identity on kinds; COLLECT-WAITS for Collect.",
		NotDecided:  "the exact contents of slices/maps; consumers that stop reading; the 1 ms sleep in ToChannel that orders the hand-out of the channel against an empty source's completion (a schedule-dependent ordering the analysis sees but cannot decide without executing; reported in DESIGN.md only).",
		Assumptions: []string{"Go channel semantics", "teardowns run once (C03)", "observer slots recover panics (C07)"},
		Floors:      map[string]int{"channels": 6, "sends_on_closable_channels": 6, "notification_constructors": 3, "from_channel": 1, "from_channel_receives": 1},
		Controls:    map[string]string{"zz_verif_controls_c17.go": roControl(controlsC17), "zz_verif_controls_c12.go": roControl(controlsC12), "zz_verif_controls_c05.go": roControl(controlsC05), "zz_verif_controls_c04.go": roControl(controlsC04), "zz_verif_controls_termrel.go": roControl(controlsTerminalRelease), "zz_verif_controls_c09.go": roControl(controlsC09 + controlsC09b), "zz_verif_controls_c03.go": roControl(controlsC03 + controlsC03b)},
	}
}

package rules

import (
	"fmt"
	"go/ast"
	"go/token"
	"go/types"

	"rocheck/internal/check"
	"rocheck/internal/load"
	"rocheck/internal/model"
)

// CANCEL-OBSERVED: a cancel function used as the release must cancel something.
func ruleCancelObserved() check.Rule {
	return check.Rule{
		Name:        "CANCEL-OBSERVED",
		NeedControl: true,
		Doc:         "when a subscribe closure derives a cancellable context (context.WithCancel / WithTimeout / WithDeadline) and its cancel function is what the teardown runs, the derived context is observed by the work the subscription started: it is passed to a call that is not a notification of the destination (a request, a dial, a query, `x.WithContext(ctx)`), or its Done()/Err() is consulted. A context that only decorates the notifications makes the teardown a no-op: the request in flight, the blocked goroutine and the connection stay after Unsubscribe",
		Run: func(c *check.Ctx) {
			m := c.M
			n := 0
			for _, sc := range m.SCs {
				armed := c.Armed(sc)
				info := sc.Pkg.TypesInfo
				ast.Inspect(sc.Lit.Body, func(x ast.Node) bool {
					as, ok := x.(*ast.AssignStmt)
					if !ok || len(as.Lhs) != 2 || len(as.Rhs) != 1 {
						return true
					}
					call, ok := ast.Unparen(as.Rhs[0]).(*ast.CallExpr)
					if !ok {
						return true
					}
					cl := model.Callee(info, call)
					if cl == nil || cl.Pkg() == nil || cl.Pkg().Path() != "context" {
						return true
					}
					switch cl.Name() {
					case "WithCancel", "WithTimeout", "WithDeadline", "WithCancelCause", "WithTimeoutCause", "WithDeadlineCause":
					default:
						return true
					}
					ctxID, ok1 := as.Lhs[0].(*ast.Ident)
					cancelID, ok2 := as.Lhs[1].(*ast.Ident)
					if !ok1 || !ok2 || ctxID.Name == "_" || cancelID.Name == "_" {
						return true
					}
					ctxObj, cancelObj := objOf(info, ctxID), objOf(info, cancelID)
					if ctxObj == nil || cancelObj == nil {
						return true
					}
					// is cancel what the teardown runs?
					isRelease := false
					for _, tr := range sc.Teardowns {
						if tr.Expr != nil && mentionsObj(info, tr.Expr, cancelObj) {
							isRelease = true
						}
						if tr.Val != nil && tr.Val.Lit != nil && mentionsObj(info, tr.Val.Lit, cancelObj) {
							isRelease = true
						}
					}
					for _, op := range sc.SubOps {
						if op.ArgExpr != nil && mentionsObj(info, op.ArgExpr, cancelObj) {
							isRelease = true
						}
					}
					if !isRelease {
						return true
					}
					n++
					observed := false
					ast.Inspect(sc.Lit.Body, func(y ast.Node) bool {
						c2, ok := y.(*ast.CallExpr)
						if !ok {
							return true
						}
						// ctx.Done() / ctx.Err()
						if sel, ok := ast.Unparen(c2.Fun).(*ast.SelectorExpr); ok {
							if id, ok := ast.Unparen(sel.X).(*ast.Ident); ok && objOf(info, id) == ctxObj && (sel.Sel.Name == "Done" || sel.Sel.Name == "Err") {
								observed = true
							}
						}
						callee := model.Callee(info, c2)
						// the library's report hooks (ro.OnUnhandledError(ctx, err), OnDroppedNotification) are handed the
						// context the way a notification is: it decorates the report, nobody waits on it
						if id, _ := rootIdent(c2.Fun); id != nil {
							hook := id
							if sel, ok := ast.Unparen(c2.Fun).(*ast.SelectorExpr); ok {
								hook = sel.Sel
							}
							if v, ok := info.Uses[hook].(*types.Var); ok && v.Pkg() != nil && v.Pkg().Path() == ro && v.Parent() == v.Pkg().Scope() {
								if _, isSig := v.Type().Underlying().(*types.Signature); isSig {
									return true
								}
							}
						}
						if callee != nil {
							if name, isObs := m.Obj.ObserverMethods[callee]; isObs && notifKind(name) >= 0 {
								return true
							}
							if callee.Pkg() != nil && callee.Pkg().Path() == "context" {
								return true // a further derivation is not an observation
							}
						}
						for _, a := range c2.Args {
							if id, ok := ast.Unparen(a).(*ast.Ident); ok && objOf(info, id) == ctxObj {
								observed = true
							}
						}
						return true
					})
					key := fmt.Sprintf("%s/cancel-%s/observed", sc, cancelID.Name)
					if observed {
						if armed {
							c.OK(key, as.Pos(), "the context cancelled by the teardown is handed to the work the subscription started")
						}
					} else {
						c.Report(armed, key, as.Pos(), "the teardown runs %s, but the context it cancels (%s) only decorates notifications: nothing the subscription started observes it, so Unsubscribe leaves the work in flight (request, goroutine, connection) running", cancelID.Name, ctxID.Name)
					}
					return true
				})
			}
			c.Inc("cancel_releases", n)
		},
	}
}

// DOWNSTREAM-LINK: closing the downstream's handle closes the wrapper built around it.
func ruleDownstreamLink() check.Rule {
	return check.Rule{
		Name: "DOWNSTREAM-LINK",
		Doc:  "in newSubscriberImpl (the one place that wraps a destination), when the destination is itself a Subscription (type assertion), the new subscriber's Unsubscribe is registered on the destination's subscription — `downstream.Add(wrapper.Unsubscribe)` — and never the other way round: cancellation travels from the consumer's handle towards the source. With the link reversed, closing the handle the consumer holds no longer releases the upstream",
		Run: func(c *check.Ctx) {
			m := c.M
			p := m.Obj.Ro
			info := p.TypesInfo
			fd := load.FuncDeclOf(p, "newSubscriberImpl")
			key := "ro.newSubscriberImpl/downstream-link"
			if fd == nil || fd.Body == nil {
				c.Undecided(key, p.Syntax[0].Pos(), "anchor newSubscriberImpl not found")
				return
			}
			// variables bound by `x, ok := destination.(Subscription)`
			handles := map[types.Object]bool{}
			ast.Inspect(fd.Body, func(x ast.Node) bool {
				as, ok := x.(*ast.AssignStmt)
				if !ok || len(as.Rhs) != 1 || len(as.Lhs) < 1 {
					return true
				}
				ta, ok := ast.Unparen(as.Rhs[0]).(*ast.TypeAssertExpr)
				if !ok || ta.Type == nil {
					return true
				}
				if t := info.TypeOf(ta.Type); t != nil && m.Obj.Subscription != nil && types.Identical(t, m.Obj.Subscription.Type()) {
					if id, ok := as.Lhs[0].(*ast.Ident); ok {
						handles[objOf(info, id)] = true
					}
				}
				return true
			})
			if len(handles) == 0 {
				c.Violation(key, fd.Pos(), "the destination is never asked whether it is a Subscription: closing the consumer's handle cannot reach the wrapper")
				return
			}
			forward, reverse := token.NoPos, token.NoPos
			ast.Inspect(fd.Body, func(x ast.Node) bool {
				call, ok := x.(*ast.CallExpr)
				if !ok || len(call.Args) != 1 {
					return true
				}
				name, isSub := m.Obj.SubscriptionMethods[model.Callee(info, call)]
				if !isSub || (name != "Add" && name != "AddUnsubscribable") {
					return true
				}
				sel, ok := ast.Unparen(call.Fun).(*ast.SelectorExpr)
				if !ok {
					return true
				}
				recvID, _ := ast.Unparen(sel.X).(*ast.Ident)
				argRoot, _ := rootIdent(call.Args[0])
				switch {
				case recvID != nil && handles[objOf(info, recvID)] && argRoot != nil && !handles[objOf(info, argRoot)]:
					forward = call.Pos()
				case argRoot != nil && handles[objOf(info, argRoot)]:
					reverse = call.Pos()
				}
				return true
			})
			switch {
			case reverse != token.NoPos:
				c.Violation(key, reverse, "the destination's own subscription is registered as a teardown of the wrapper (link reversed): closing the handle the consumer holds does not close the wrapper, the upstream is not released")
			case forward == token.NoPos:
				c.Violation(key, fd.Pos(), "the wrapper's Unsubscribe is not registered on the destination's subscription")
			default:
				c.OK(key, forward, "the wrapper's Unsubscribe is registered on the destination's subscription")
			}
		},
	}
}

const controlsCancelObserved = `
func verifControlCancelIgnored(work func() (int, error)) Observable[int] {
	return NewObservable(func(destination Observer[int]) Teardown {
		ctx, cancel := context.WithCancel(context.Background())
		go func() {
			v, err := work()
			if err != nil {
				destination.ErrorWithContext(ctx, err)
				return
			}
			destination.NextWithContext(ctx, v)
			destination.CompleteWithContext(ctx)
		}()
		return (func())(cancel)
	})
}
`

// TERMINAL-RELEASE-AGREEMENT: both terminal callbacks run the same releasing closures.
func ruleTerminalReleaseAgreement() check.Rule {
	return check.Rule{
		Name:        "TERMINAL-RELEASE-AGREEMENT",
		NeedControl: true,
		Doc:         "sibling cross-check on every observer an operator builds from literals: a local closure that releases something (closes a channel, stops a timer, unsubscribes a subscription — directly or inside a sync.Once) and is called by one terminal callback (error / complete) is called by the other one too. A stream that ends with an error otherwise leaves the hand-off channel open, the consumer loop parked and Subscribe blocked, where a completed stream is cleaned up",
		Run: func(c *check.Ctx) {
			m := c.M
			n := 0
			for _, sc := range m.SCs {
				armed := c.Armed(sc)
				info := sc.Pkg.TypesInfo
				// releasing closures of this subscribe closure
				releasing := map[types.Object]string{}
				ast.Inspect(sc.Lit.Body, func(x ast.Node) bool {
					as, ok := x.(*ast.AssignStmt)
					if !ok || len(as.Lhs) != 1 || len(as.Rhs) != 1 {
						return true
					}
					id, ok := as.Lhs[0].(*ast.Ident)
					lit, ok2 := ast.Unparen(as.Rhs[0]).(*ast.FuncLit)
					if !ok || !ok2 || lit.Type.Params.NumFields() != 0 {
						return true
					}
					what := ""
					ast.Inspect(lit.Body, func(y ast.Node) bool {
						call, ok := y.(*ast.CallExpr)
						if !ok {
							return true
						}
						if fid, ok := ast.Unparen(call.Fun).(*ast.Ident); ok && fid.Name == "close" {
							if _, isBuiltin := info.Uses[fid].(*types.Builtin); isBuiltin {
								what = "closes a channel"
							}
						}
						if name, isSub := m.Obj.SubscriptionMethods[model.Callee(info, call)]; isSub && name == "Unsubscribe" {
							what = "unsubscribes"
						}
						if cl := model.Callee(info, call); cl != nil && cl.Pkg() != nil && cl.Pkg().Path() == "time" && cl.Name() == "Stop" {
							what = "stops a timer"
						}
						return true
					})
					if what != "" {
						if o := objOf(info, id); o != nil {
							releasing[o] = what
						}
					}
					return true
				})
				if len(releasing) == 0 {
					continue
				}
				ast.Inspect(sc.Lit.Body, func(x ast.Node) bool {
					call, ok := x.(*ast.CallExpr)
					if !ok || len(call.Args) != 3 {
						return true
					}
					cl := model.Callee(info, call)
					if cl == nil {
						return true
					}
					if _, isCtor := m.Obj.ObserverCtors[cl]; !isCtor {
						return true
					}
					errLit, ok1 := ast.Unparen(call.Args[1]).(*ast.FuncLit)
					cmpLit, ok2 := ast.Unparen(call.Args[2]).(*ast.FuncLit)
					if !ok1 || !ok2 {
						return true
					}
					calls := func(lit *ast.FuncLit) map[types.Object]bool {
						out := map[types.Object]bool{}
						ast.Inspect(lit.Body, func(y ast.Node) bool {
							if c2, ok := y.(*ast.CallExpr); ok {
								if fid, ok := ast.Unparen(c2.Fun).(*ast.Ident); ok {
									if o := objOf(info, fid); o != nil && releasing[o] != "" {
										out[o] = true
									}
								}
							}
							return true
						})
						return out
					}
					ce, cc := calls(errLit), calls(cmpLit)
					for _, pair := range []struct {
						have, other map[types.Object]bool
						missing     *ast.FuncLit
						name        string
					}{{cc, ce, errLit, "error"}, {ce, cc, cmpLit, "complete"}} {
						for o := range pair.have {
							n++
							key := fmt.Sprintf("%s/%s-in-%s@%s", sc, o.Name(), pair.name, posKey(m, call.Pos()))
							if pair.other[o] {
								if armed {
									c.OK(key, pair.missing.Pos(), "both terminal callbacks call "+o.Name())
								}
							} else {
								c.Report(armed, key, pair.missing.Pos(), "the %s callback does not call %s (which %s) although the other terminal callback of the same observer does: a stream that ends this way is not cleaned up", pair.name, o.Name(), releasing[o])
							}
						}
					}
					return true
				})
			}
			c.Inc("terminal_release_calls", n)
		},
	}
}

func posKey(m *model.Model, p token.Pos) string {
	pp := m.Prog.Fset.Position(p)
	return fmt.Sprintf("L%d", pp.Line)
}

const controlsTerminalRelease = `
func verifControlTerminalRelease[T any]() func(Observable[T]) Observable[T] {
	return func(source Observable[T]) Observable[T] {
		return NewObservableWithContext(func(subscriberCtx context.Context, destination Observer[T]) Teardown {
			ch := make(chan T, 1)
			stop := func() {
				close(ch)
			}
			go func() {
				for v := range ch {
					destination.NextWithContext(subscriberCtx, v)
				}
			}()
			sub := source.SubscribeWithContext(subscriberCtx, NewObserverWithContext(
				func(ctx context.Context, v T) { ch <- v },
				func(ctx context.Context, err error) { destination.ErrorWithContext(ctx, err) },
				func(ctx context.Context) { stop(); destination.CompleteWithContext(ctx) },
			))
			return func() {
				sub.Unsubscribe()
			}
		})
	}
}
`

// externalPairs: acquisitions of resources that live outside the library and the call that gives them back.
// Each line was confirmed against the documentation of the package it names.
var externalPairs = []struct {
	pkg, acquire string // function called in the subscribe closure
	release      string // function (same package, same first argument) or method (on the acquired object) the teardown calls
	method       bool
	why          string
}{
	{"os/signal", "Notify", "Stop", false, "signal.Notify registers the channel with the runtime until signal.Stop(ch): without it the process-wide handler keeps the channel (and sends into it after the teardown closed it: panic)"},
	{"github.com/fsnotify/fsnotify", "NewWatcher", "Close", true, "an fsnotify watcher holds an inotify descriptor and a goroutine until Close"},
	{"os", "Open", "Close", true, "an *os.File holds a descriptor until Close"},
	{"net", "Listen", "Close", true, "a listener holds a socket until Close"},
	{"time", "NewTicker", "Stop", true, "a ticker keeps firing until Stop"},
}

// EXTERNAL-ACQUIRE-RELEASED: what the subscribe closure takes from the operating system, the teardown gives back.
func ruleExternalAcquireReleased() check.Rule {
	return check.Rule{
		Name:        "EXTERNAL-ACQUIRE-RELEASED",
		NeedControl: true,
		Doc:         "for the listed acquire/release pairs of packages outside the library (signal.Notify/Stop, fsnotify.NewWatcher/Close, os.Open/Close, net.Listen/Close, time.NewTicker/Stop): an acquisition made in the body of a subscribe closure (not in a callback that releases it itself through defer) has its release call — same channel argument, or method on the acquired object — inside a teardown the closure returns or registers",
		Run: func(c *check.Ctx) {
			m := c.M
			n := 0
			for _, sc := range m.SCs {
				armed := c.Armed(sc)
				info := sc.Pkg.TypesInfo
				// teardown code: returned literals and literals registered with Add
				var tds []*ast.FuncLit
				for _, tr := range sc.Teardowns {
					if tr.Val != nil && tr.Val.Lit != nil {
						tds = append(tds, tr.Val.Lit)
					}
				}
				for _, op := range sc.SubOps {
					if op.Method == "Add" && op.ArgExpr != nil {
						if l, ok := ast.Unparen(op.ArgExpr).(*ast.FuncLit); ok {
							tds = append(tds, l)
						}
					}
				}
				ast.Inspect(sc.Lit.Body, func(x ast.Node) bool {
					call, ok := x.(*ast.CallExpr)
					if !ok {
						return true
					}
					cl := model.Callee(info, call)
					if cl == nil || cl.Pkg() == nil {
						return true
					}
					for _, pr := range externalPairs {
						if cl.Pkg().Path() != pr.pkg || cl.Name() != pr.acquire {
							continue
						}
						// the acquired object / the registered channel
						var obj types.Object
						if pr.method {
							if as, ok := m.Parent(sc.Pkg, call).(*ast.AssignStmt); ok && len(as.Lhs) >= 1 {
								if id, ok := as.Lhs[0].(*ast.Ident); ok {
									obj = objOf(info, id)
								}
							}
						} else if len(call.Args) > 0 {
							if id, ok := ast.Unparen(call.Args[0]).(*ast.Ident); ok {
								obj = objOf(info, id)
							}
						}
						if obj == nil {
							continue
						}
						n++
						key := fmt.Sprintf("%s/%s.%s-%s/released", sc, cl.Pkg().Name(), pr.acquire, obj.Name())
						released := false
						// a deferred release in the same function as the acquisition (synchronous use)
						var scopes []ast.Node
						for _, l := range tds {
							scopes = append(scopes, l)
						}
						if fn := innermostFunc(m, sc.Pkg, call); fn != nil {
							ast.Inspect(fn, func(y ast.Node) bool {
								if d, ok := y.(*ast.DeferStmt); ok {
									scopes = append(scopes, d)
								}
								return true
							})
						}
						for _, scope := range scopes {
							ast.Inspect(scope, func(y ast.Node) bool {
								c2, ok := y.(*ast.CallExpr)
								if !ok {
									return true
								}
								if pr.method {
									if sel, ok := ast.Unparen(c2.Fun).(*ast.SelectorExpr); ok && sel.Sel.Name == pr.release {
										if id, ok := ast.Unparen(sel.X).(*ast.Ident); ok && objOf(info, id) == obj {
											released = true
										}
									}
								} else if cl2 := model.Callee(info, c2); cl2 != nil && cl2.Pkg() != nil && cl2.Pkg().Path() == pr.pkg && cl2.Name() == pr.release && len(c2.Args) > 0 {
									if id, ok := ast.Unparen(c2.Args[0]).(*ast.Ident); ok && objOf(info, id) == obj {
										released = true
									}
								}
								return true
							})
						}
						// the release registered as a finalizer by its method value: subs.Add(ticker.Stop)
						if pr.method {
							for _, op := range sc.SubOps {
								if op.Method != "Add" || op.ArgExpr == nil {
									continue
								}
								if sel, ok := ast.Unparen(op.ArgExpr).(*ast.SelectorExpr); ok && sel.Sel.Name == pr.release {
									if id, ok := ast.Unparen(sel.X).(*ast.Ident); ok && objOf(op.Pkg.TypesInfo, id) == obj {
										released = true
									}
								}
							}
						}
						// an acquisition made in the subscribe function itself: every later return hands back a teardown (the
						// early `return nil` of an error branch taken after the resource exists leaks it)
						if released && innermostFunc(m, sc.Pkg, call) == ast.Node(sc.Lit) {
							var acqErr types.Object
							if as, ok := m.Parent(sc.Pkg, call).(*ast.AssignStmt); ok && len(as.Lhs) == 2 {
								if id, ok := as.Lhs[1].(*ast.Ident); ok {
									acqErr = objOf(info, id)
								}
							}
							hasDefer := false
							ast.Inspect(sc.Lit.Body, func(y ast.Node) bool {
								if l, ok := y.(*ast.FuncLit); ok && l != sc.Lit {
									return false
								}
								if d, ok := y.(*ast.DeferStmt); ok && mentionsObj(info, d.Call, obj) {
									hasDefer = true
								}
								return true
							})
							ast.Inspect(sc.Lit.Body, func(y ast.Node) bool {
								if l, ok := y.(*ast.FuncLit); ok && l != sc.Lit {
									return false
								}
								ret, ok := y.(*ast.ReturnStmt)
								if !ok || ret.Pos() < call.End() || len(ret.Results) != 1 || hasDefer {
									return true
								}
								if id, ok := ast.Unparen(ret.Results[0]).(*ast.Ident); !ok {
									return true
								} else if _, isNil := info.Uses[id].(*types.Nil); !isNil {
									return true
								}
								// the failure branch of the acquisition itself: nothing was acquired
								for cn := m.Parent(sc.Pkg, ret); cn != nil && cn != ast.Node(sc.Lit); cn = m.Parent(sc.Pkg, cn) {
									if ifs, ok := cn.(*ast.IfStmt); ok && acqErr != nil && mentionsObj(info, ifs.Cond, acqErr) {
										// …provided the error variable still holds the acquisition's error (not reassigned in between)
										reassigned := false
										for _, d := range m.Defs[acqErr] {
											if d.Pos > call.Pos() && d.Pos < ifs.Pos() {
												reassigned = true
											}
										}
										if !reassigned {
											return true
										}
									}
								}
								released = false
								c.Report(armed, key+"/on-every-return", ret.Pos(), "after %s.%s succeeded this path returns a nil teardown: the %s acquired above is never given back (%s)", cl.Pkg().Name(), pr.acquire, obj.Name(), pr.why)
								return true
							})
							if !released {
								continue
							}
						}
						if released {
							if armed {
								c.OK(key, call.Pos(), "given back by the teardown (%s)", pr.release)
							}
						} else {
							c.Report(armed, key, call.Pos(), "%s.%s is never followed by %s in a teardown of this subscribe closure: %s", cl.Pkg().Name(), pr.acquire, pr.release, pr.why)
						}
					}
					return true
				})
			}
			c.Inc("external_acquisitions", n)
		},
	}
}

const controlsExternalAcquire = `
func verifControlTickerLeak() Observable[int64] {
	return NewObservableWithContext(func(ctx context.Context, destination Observer[int64]) Teardown {
		ticker := time.NewTicker(time.Second)
		done := make(chan struct{})
		go func() {
			for {
				select {
				case <-done:
					return
				case <-ticker.C:
					destination.NextWithContext(ctx, 0)
				}
			}
		}()
		return func() {
			close(done)
		}
	})
}
`

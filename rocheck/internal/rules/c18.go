package rules

import (
	"fmt"
	"go/ast"
	"go/types"
	"strings"

	"golang.org/x/tools/go/packages"

	"rocheck/internal/check"
	"rocheck/internal/model"
)

// STABLE-MEANS-STABLE
func ruleStableMeansStable() check.Rule {
	return check.Rule{
		Name:        "STABLE-MEANS-STABLE",
		Doc:         "an operator whose exported name says Stable never sorts through an API documented as not stable (sort.Slice, sort.Sort, slices.Sort, slices.SortFunc) and calls a stable one (sort.SliceStable, sort.Stable, slices.SortStableFunc)",
		NeedControl: true,
		Run: func(c *check.Ctx) {
			m := c.M
			unstable := map[string]bool{"sort.Slice": true, "sort.Sort": true, "slices.Sort": true, "slices.SortFunc": true, "sort.Ints": true, "sort.Strings": true, "sort.Float64s": true}
			stable := map[string]bool{"sort.SliceStable": true, "sort.Stable": true, "slices.SortStableFunc": true}
			for _, p := range m.Pkgs {
				armed := c.ArmedPkg(p.PkgPath)
				info := p.TypesInfo
				for _, f := range p.Syntax {
					for _, d := range f.Decls {
						fd, ok := d.(*ast.FuncDecl)
						if !ok || fd.Body == nil || !strings.Contains(fd.Name.Name, "Stable") {
							continue
						}
						c.Inc("stable_operators", 1)
						key := model.ShortPkg(p.PkgPath) + "." + fd.Name.Name + "/stable-sort"
						// the sort functions this operator calls or hands on as a function value (sortWith(cmp, sort.SliceStable))
						var bad ast.Expr
						good := false
						ast.Inspect(fd.Body, func(n ast.Node) bool {
							var fn *types.Func
							var at ast.Expr
							switch y := n.(type) {
							case *ast.SelectorExpr:
								fn, _ = info.Uses[y.Sel].(*types.Func)
								at = y
							case *ast.Ident:
								fn, _ = info.Uses[y].(*types.Func)
								at = y
							}
							if fn == nil || fn.Pkg() == nil {
								return true
							}
							name := fn.Pkg().Name() + "." + fn.Name()
							if unstable[name] {
								bad = at
							}
							if stable[name] {
								good = true
							}
							return true
						})
						switch {
						case bad != nil:
							c.Report(armed, key, bad.Pos(), "%s sorts with %s, which is documented as not stable: elements that compare equal can be reordered", fd.Name.Name, types.ExprString(bad))
						case good:
							if armed {
								c.OK(key, fd.Pos(), "sorts with a stable algorithm")
							}
						default:
							if armed {
								c.Undecided(key, fd.Pos(), "no recognised sort call in an operator named Stable")
							}
						}
					}
				}
			}
		},
	}
}

// subSliceFuncs: standard functions documented to return (sub)slices of their argument.
func returnsSubSlice(fn *types.Func) bool {
	if fn == nil || fn.Pkg() == nil {
		return false
	}
	switch fn.Pkg().Path() {
	case "bytes":
		switch fn.Name() {
		case "TrimSpace", "Trim", "TrimLeft", "TrimRight", "TrimPrefix", "TrimSuffix", "TrimFunc", "TrimLeftFunc", "TrimRightFunc",
			"Fields", "FieldsFunc", "Split", "SplitN", "SplitAfter", "SplitAfterN", "Cut", "CutPrefix", "CutSuffix":
			return true
		}
	case "regexp":
		return strings.HasPrefix(fn.Name(), "Find")
	case "slices":
		switch fn.Name() {
		case "Clip", "Grow":
			return true
		}
	}
	return false
}

func isSliceLike(t types.Type) bool {
	if t == nil {
		return false
	}
	switch u := t.Underlying().(type) {
	case *types.Slice:
		return true
	case *types.Interface:
		// type parameter with a slice core type (~[]byte)
		if tp, ok := t.(*types.TypeParam); ok {
			if tp.Constraint() != nil {
				if it, ok := tp.Constraint().Underlying().(*types.Interface); ok {
					for i := 0; i < it.NumEmbeddeds(); i++ {
						if un, ok := it.EmbeddedType(i).(*types.Union); ok {
							for j := 0; j < un.Len(); j++ {
								if _, isSlice := un.Term(j).Type().Underlying().(*types.Slice); isSlice {
									return true
								}
							}
						}
					}
				}
			}
		}
		_ = u
	}
	return false
}

// NO-INPUT-MUTATION
func ruleNoInputMutation() check.Rule {
	return check.Rule{
		Name:        "NO-INPUT-MUTATION",
		Doc:         "inside the functions of the data plugins that receive a slice (lifted lambdas and the helpers they call), nothing is written through the received slice or through a slice derived from it by slicing, conversion or a standard function documented to return a sub-slice (bytes.Trim*, Fields, Split*, regexp Find*): no element store, no copy into it, no in-place sort, and no append onto it (append reuses spare capacity of the caller's backing array)",
		NeedControl: true,
		Run: func(c *check.Ctx) {
			m := c.M
			for _, p := range m.Pkgs {
				armed := c.ArmedPkg(p.PkgPath)
				info := p.TypesInfo
				// function nodes with slice parameters
				for _, fn := range funcNodes(p) {
					ft := funcType(fn)
					body := funcBody(fn)
					if body == nil {
						continue
					}
					// subscribe closures and application literals receive observers/observables, not data
					tainted := map[types.Object]bool{}
					for _, prm := range model.FlattenParams(info, ft.Params) {
						if prm != nil && isSliceLike(prm.Type()) && !isVariadicParam(info, ft, prm) {
							tainted[prm] = true
						}
					}
					if len(tainted) == 0 {
						continue
					}
					c.Inc("slice_receiving_functions", 1)
					chain := m.EnclosingFuncs(p, fn)
					fkey := chainKey(m, p, chain, scLits(m))
					// propagate taint flow-insensitively
					var isTainted func(e ast.Expr) bool
					isTainted = func(e ast.Expr) bool {
						switch x := ast.Unparen(e).(type) {
						case *ast.Ident:
							return tainted[objOf(info, x)]
						case *ast.SliceExpr:
							return isTainted(x.X)
						case *ast.CallExpr:
							if tv, ok := info.Types[x.Fun]; ok && tv.IsType() && len(x.Args) == 1 {
								// conversion: only slice-to-slice conversions alias
								if isSliceLike(info.TypeOf(x)) && isSliceLike(info.TypeOf(x.Args[0])) {
									return isTainted(x.Args[0])
								}
								return false
							}
							cl := model.Callee(info, x)
							if returnsSubSlice(cl) {
								for _, a := range x.Args {
									if isTainted(a) {
										return true
									}
								}
								// method form: re.Find(b)
								return false
							}
						case *ast.IndexExpr:
							// element of a tainted slice of slices (Fields/Split results)
							return isTainted(x.X) && isSliceLike(info.TypeOf(x))
						}
						return false
					}
					for changed := true; changed; {
						changed = false
						ast.Inspect(body, func(n ast.Node) bool {
							if l, ok := n.(*ast.FuncLit); ok && ast.Node(l) != fn {
								return false
							}
							switch x := n.(type) {
							case *ast.AssignStmt:
								if len(x.Lhs) == len(x.Rhs) {
									for i, l := range x.Lhs {
										if id, ok := l.(*ast.Ident); ok && isTainted(x.Rhs[i]) {
											if o := objOf(info, id); o != nil && !tainted[o] {
												tainted[o] = true
												changed = true
											}
										}
									}
								}
							case *ast.RangeStmt:
								if isTainted(x.X) && x.Value != nil {
									if id, ok := x.Value.(*ast.Ident); ok && isSliceLike(info.TypeOf(x.Value)) {
										if o := objOf(info, id); o != nil && !tainted[o] {
											tainted[o] = true
											changed = true
										}
									}
								}
							}
							return true
						})
					}
					n := 0
					report := func(node ast.Node, what string) {
						n++
						key := fmt.Sprintf("%s/write#%d", fkey, n)
						c.Report(armed, key, node.Pos(), "%s: the value handed to the operator (or one already delivered) is modified", what)
					}
					ast.Inspect(body, func(x ast.Node) bool {
						if l, ok := x.(*ast.FuncLit); ok && ast.Node(l) != fn {
							return false
						}
						switch y := x.(type) {
						case *ast.AssignStmt:
							for _, l := range y.Lhs {
								if ix, ok := ast.Unparen(l).(*ast.IndexExpr); ok && isTainted(ix.X) {
									// items[i] = ... where items is a slice of slices derived from the input only replaces
									// an element of the *outer* fresh slice when the outer slice itself is fresh; a tainted
									// outer slice aliases the input only for byte-level slices
									if _, isByteElem := info.TypeOf(ix).Underlying().(*types.Basic); isByteElem {
										report(y, "element store through a slice that aliases the input")
									}
								}
							}
						case *ast.CallExpr:
							if id, ok := ast.Unparen(y.Fun).(*ast.Ident); ok {
								if b, ok := info.Uses[id].(*types.Builtin); ok {
									switch b.Name() {
									case "append":
										if len(y.Args) > 0 && isTainted(y.Args[0]) {
											report(y, "append onto a slice that aliases the input (writes into the spare capacity of the caller's backing array)")
										}
									case "copy":
										if len(y.Args) == 2 && isTainted(y.Args[0]) {
											report(y, "copy into a slice that aliases the input")
										}
									}
								}
							}
							if cl := model.Callee(info, y); cl != nil && cl.Pkg() != nil && (cl.Pkg().Path() == "sort" || cl.Pkg().Path() == "slices") && strings.HasPrefix(cl.Name(), "S") && len(y.Args) > 0 && isTainted(y.Args[0]) {
								if strings.HasPrefix(cl.Name(), "Sort") || cl.Name() == "Slice" || cl.Name() == "SliceStable" || cl.Name() == "Stable" {
									report(y, "in-place sort of a slice that aliases the input")
								}
							}
						}
						return true
					})
					if n == 0 && armed {
						c.OK(fkey+"/no-input-mutation", fn.Pos(), "no write through the received slice or its derivatives")
					}
				}
			}
		},
	}
}

func isVariadicParam(info *types.Info, ft *ast.FuncType, v *types.Var) bool {
	if ft.Params == nil || len(ft.Params.List) == 0 {
		return false
	}
	last := ft.Params.List[len(ft.Params.List)-1]
	if _, ok := last.Type.(*ast.Ellipsis); !ok {
		return false
	}
	for _, n := range last.Names {
		if info.Defs[n] == v {
			return true
		}
	}
	return false
}

// FLAVOUR-AGREEMENT
func ruleFlavourAgreement() check.Rule {
	return check.Rule{
		Name:        "FLAVOUR-AGREEMENT",
		Doc:         "the byte flavour of a text helper never classifies individual bytes with unicode.Is*(rune(b)) (a per-byte classification cannot agree with the string flavour's per-rune one on multi-byte text); helpers present in both plugins/strings and plugins/bytes are listed with their callee sequences for cross-reference",
		NeedControl: true,
		Run: func(c *check.Ctx) {
			m := c.M
			for _, p := range m.Pkgs {
				armed := c.ArmedPkg(p.PkgPath)
				info := p.TypesInfo
				for _, fn := range funcNodes(p) {
					body := funcBody(fn)
					if body == nil {
						continue
					}
					n := 0
					ast.Inspect(body, func(x ast.Node) bool {
						if l, ok := x.(*ast.FuncLit); ok && ast.Node(l) != fn {
							return false
						}
						call, ok := x.(*ast.CallExpr)
						if !ok || len(call.Args) != 1 {
							return true
						}
						cl := model.Callee(info, call)
						if cl == nil || cl.Pkg() == nil || cl.Pkg().Path() != "unicode" || !strings.HasPrefix(cl.Name(), "Is") {
							return true
						}
						c.Inc("unicode_classifications", 1)
						conv, ok := ast.Unparen(call.Args[0]).(*ast.CallExpr)
						if !ok || len(conv.Args) != 1 {
							return true
						}
						if tv, ok := info.Types[conv.Fun]; !ok || !tv.IsType() {
							return true
						}
						at := info.TypeOf(conv.Args[0])
						if b, ok := at.Underlying().(*types.Basic); ok && (b.Kind() == types.Byte || b.Kind() == types.Uint8) {
							n++
							chain := m.EnclosingFuncs(p, fn)
							key := fmt.Sprintf("%s/byte-classification#%d", chainKey(m, p, chain, scLits(m)), n)
							c.Report(armed, key, call.Pos(), "unicode.%s is applied to a single byte converted to rune: multi-byte characters are classified byte by byte, so the byte flavour disagrees with the string flavour on non-ASCII text", cl.Name())
						}
						return true
					})
				}
			}
			// cross-reference table of sibling helpers
			sp, bp := c.Prog.ByPath[ro+"/plugins/strings"], c.Prog.ByPath[ro+"/plugins/bytes"]
			if sp == nil || bp == nil {
				return
			}
			calls := func(p *packages.Package) map[string][]string {
				out := map[string][]string{}
				for _, f := range p.Syntax {
					for _, d := range f.Decls {
						fd, ok := d.(*ast.FuncDecl)
						if !ok || fd.Body == nil || fd.Recv != nil || ast.IsExported(fd.Name.Name) {
							continue
						}
						var seq []string
						ast.Inspect(fd.Body, func(n ast.Node) bool {
							if call, ok := n.(*ast.CallExpr); ok {
								if cl := model.Callee(p.TypesInfo, call); cl != nil && cl.Pkg() != nil {
									name := cl.Name()
									name = strings.TrimSuffix(name, "String")
									switch name {
									case "WriteRune", "WriteByte":
										name = "Write1"
									case "Bytes":
										name = "Result"
									}
									pk := cl.Pkg().Name()
									if pk == "strings" || pk == "bytes" {
										pk = "text"
									}
									seq = append(seq, pk+"."+name)
								}
							}
							return true
						})
						out[fd.Name.Name] = seq
					}
				}
				return out
			}
			sc, bc := calls(sp), calls(bp)
			for name, sseq := range sc {
				bseq, ok := bc[name]
				if !ok {
					continue
				}
				c.Inc("sibling_helpers", 1)
				if strings.Join(sseq, ",") == strings.Join(bseq, ",") {
					c.OK("plugins/strings~bytes."+name+"/callees", sp.Syntax[0].Pos(), "same callee sequence after mapping strings<->bytes")
				} else {
					c.Info("plugins/strings~bytes."+name+"/callees", sp.Syntax[0].Pos(), "callee sequences differ (informational): strings=%v bytes=%v", sseq, bseq)
				}
			}
		},
	}
}

// FLUSH-BEFORE-TERMINAL: a sink over a buffered writer hands its buffer over before it reports the end.
func ruleFlushBeforeTerminal() check.Rule {
	return check.Rule{
		Name:        "FLUSH-BEFORE-TERMINAL",
		FamilyShape: true,
		Doc:         "in a plugin operator that writes through a caller-supplied buffered writer (a parameter whose type has Write* and Flush methods, e.g. *csv.Writer), every terminal notification sent to the destination is preceded on every path by Flush on that writer: otherwise the operator reports rows as written that never reach the underlying io.Writer (only the completion path is exercised by the tests)",
		Run: func(c *check.Ctx) {
			m := c.M
			n := 0
			for _, sc := range m.SCs {
				if !c.Armed(sc) {
					continue
				}
				info := sc.Pkg.TypesInfo
				// buffered writers used in the closure: variables declared outside it whose type has Flush()
				writers := map[*types.Var]bool{}
				ast.Inspect(sc.Lit.Body, func(x ast.Node) bool {
					call, ok := x.(*ast.CallExpr)
					if !ok {
						return true
					}
					sel, ok := ast.Unparen(call.Fun).(*ast.SelectorExpr)
					if !ok || !strings.HasPrefix(sel.Sel.Name, "Write") {
						return true
					}
					id, ok := ast.Unparen(sel.X).(*ast.Ident)
					if !ok {
						return true
					}
					v, ok := objOf(info, id).(*types.Var)
					if !ok || (sc.Lit.Pos() <= v.Pos() && v.Pos() <= sc.Lit.End()) {
						return true
					}
					if obj, _, _ := types.LookupFieldOrMethod(v.Type(), true, sc.Pkg.Types, "Flush"); obj != nil {
						if _, isFn := obj.(*types.Func); isFn {
							writers[v] = true
						}
					}
					return true
				})
				for w := range writers {
					isFlush := func(nd ast.Node) bool {
						found := false
						ast.Inspect(nd, func(x ast.Node) bool {
							if _, isLit := x.(*ast.FuncLit); isLit {
								return false
							}
							if call, ok := x.(*ast.CallExpr); ok {
								if sel, ok := ast.Unparen(call.Fun).(*ast.SelectorExpr); ok && sel.Sel.Name == "Flush" {
									if id, ok := ast.Unparen(sel.X).(*ast.Ident); ok && objOf(info, id) == types.Object(w) {
										found = true
									}
								}
							}
							return !found
						})
						return found
					}
					cnt := 0
					for _, e := range sc.Emits {
						if !e.ToDest || e.Kind == model.EmitNext || e.Forwarder {
							if e.ToDest && e.Forwarder && e.Kind != model.EmitNext {
								cnt++
								n++
								c.Violation(fmt.Sprintf("%s/%s/flush-%s#%d", sc, model.CtxKey(e.Ctx, e.Slot), w.Name(), cnt), e.Pos, "the %s of the source is forwarded directly although rows may still sit in the buffer of %s: they never reach the underlying writer", model.SlotNames[e.Kind], w.Name())
							}
							continue
						}
						cnt++
						n++
						key := fmt.Sprintf("%s/%s/flush-%s#%d", sc, model.CtxKey(e.Ctx, e.Slot), w.Name(), cnt)
						body := funcBody(innermostFunc(m, e.Pkg, e.Node))
						if body != nil && pathsPassBefore(body, e.Node, isFlush) {
							c.OK(key, e.Pos, "%s.Flush() precedes the %s notification on every path", w.Name(), model.SlotNames[e.Kind])
						} else {
							c.Violation(key, e.Pos, "the %s notification is sent on a path that has not called %s.Flush(): rows counted as written are still in the buffer and never reach the underlying writer", model.SlotNames[e.Kind], w.Name())
						}
					}
				}
			}
			c.Inc("buffered_sink_terminals", n)
			c.Note("FLUSH-BEFORE-TERMINAL recognised=%d terminal notifications of buffered sinks", n)
		},
	}
}

// HOMONYM-WRAPPER: a lift named after a library function calls that function.
func ruleHomonymWrapper() check.Rule {
	return check.Rule{
		Name: "HOMONYM-WRAPPER",
		Doc:  "in the plugin packages, when an exported function F calls a method of a library type (or a function of a library package) and that type (package) also has a method (function) named exactly F with identical parameter and result types, the one F calls is the homonym: `ReplaceAll` lifting `(*Regexp).ReplaceAllLiteral`, or `ParseInt` lifting `strconv.ParseUint`, is a faithful lift of the wrong function",
		Run: func(c *check.Ctx) {
			m := c.M
			n := 0
			for _, p := range m.Pkgs {
				if !c.ArmedPkg(p.PkgPath) {
					continue
				}
				info := p.TypesInfo
				for _, f := range p.Syntax {
					if strings.HasSuffix(c.Prog.Fset.Position(f.Pos()).Filename, "_test.go") {
						continue
					}
					for _, d := range f.Decls {
						fd, ok := d.(*ast.FuncDecl)
						if !ok || fd.Body == nil || fd.Recv != nil || !fd.Name.IsExported() || check.IsControlName(fd.Name.Name) {
							continue
						}
						ast.Inspect(fd.Body, func(x ast.Node) bool {
							call, ok := x.(*ast.CallExpr)
							if !ok {
								return true
							}
							cl := model.Callee(info, call)
							if cl == nil || cl.Pkg() == nil || cl.Pkg() == p.Types || strings.HasPrefix(cl.Pkg().Path(), "github.com/samber/ro") {
								return true
							}
							sig, _ := cl.Type().(*types.Signature)
							if sig == nil {
								return true
							}
							// the homonym must be callable with the very same arguments (identical parameter and result types):
							// only then is "calls a different function of the same shape" a slip rather than a design choice
							hasHomonym := false
							sameShape := func(o types.Object) bool {
								hf, isFn := o.(*types.Func)
								if !isFn {
									return false
								}
								hs, _ := hf.Type().(*types.Signature)
								return hs != nil && types.Identical(hs.Params(), sig.Params()) && types.Identical(hs.Results(), sig.Results())
							}
							if recv := sig.Recv(); recv != nil {
								if o, _, _ := types.LookupFieldOrMethod(recv.Type(), true, cl.Pkg(), fd.Name.Name); o != nil && sameShape(o) {
									hasHomonym = true
								}
							} else if o := cl.Pkg().Scope().Lookup(fd.Name.Name); o != nil && sameShape(o) {
								hasHomonym = true
							}
							if !hasHomonym {
								return true
							}
							n++
							key := fmt.Sprintf("%s.%s/lifts-%s", model.ShortPkg(p.PkgPath), fd.Name.Name, cl.Name())
							if cl.Name() == fd.Name.Name {
								c.OK(key, call.Pos(), "lifts its homonym %s.%s", cl.Pkg().Name(), cl.Name())
							} else if sameFamilyHelper(cl.Name(), fd.Name.Name) {
								c.OK(key, call.Pos(), "auxiliary call %s next to the homonym", cl.Name())
							} else {
								c.Violation(key, call.Pos(), "%s is named after %s.%s, which exists, but calls %s.%s: the emitted value is not what the function it is named after returns", fd.Name.Name, cl.Pkg().Name(), fd.Name.Name, cl.Pkg().Name(), cl.Name())
							}
							return true
						})
					}
				}
			}
			c.Inc("homonym_lifts", n)
		},
	}
}

// sameFamilyHelper: calls that legitimately accompany the homonym in the same function (the function also calls its
// homonym elsewhere is not required: constructors, error formatting and conversions of the same library are common).
func sameFamilyHelper(callee, fn string) bool {
	switch callee {
	case "Error", "String", "Errorf", "New", "Len", "Bytes":
		return true
	}
	return false
}

func pluginControl(pkgName string, imports []string, body string) string {
	var sb strings.Builder
	sb.WriteString("package " + pkgName + "\n\nimport (\n")
	for _, im := range imports {
		sb.WriteString("\t" + im + "\n")
	}
	sb.WriteString(")\n")
	sb.WriteString(body)
	return sb.String()
}

const controlsC18Sort = `
func verifControlSortStable[T comparable](cmp func(a, b T) int) func(ro.Observable[T]) ro.Observable[T] {
	return func(source ro.Observable[T]) ro.Observable[T] {
		return ro.NewObservableWithContext(func(subscriberCtx context.Context, destination ro.Observer[T]) ro.Teardown {
			values, ctx, err := ro.CollectWithContext(subscriberCtx, source)
			if err != nil {
				destination.ErrorWithContext(ctx, err)
				return nil
			}
			sort.Slice(values, func(i, j int) bool { return cmp(values[i], values[j]) < 0 })
			for _, value := range values {
				destination.NextWithContext(ctx, value)
			}
			destination.CompleteWithContext(ctx)
			return nil
		})
	}
}
`

const controlsC18Bytes = `
func verifControlAppendInput(str []byte) []byte {
	str = bytes.TrimSpace(str)
	return append(str, '!')
}

func verifControlByteClass(str []byte) int {
	n := 0
	for _, b := range str {
		if unicode.IsLetter(rune(b)) {
			n++
		}
	}
	return n
}
`

func C18() *check.Property {
	scope := append([]string{}, PluginPkgs...)
	return &check.Property{
		ID:       "C18",
		Title:    "Data plugins are faithful lifts of the functions they wrap",
		Patterns: cat(CorePatterns, PluginPkgs),
		Scope:    scope,
		Rules: []check.Rule{ruleStableMeansStable(), ruleNoInputMutation(), ruleNoPostDeliveryMutation(), ruleFlavourAgreement(),
			ruleErrResultUsed(), ruleRelease(), ruleCtxProvenance(), ruleStateLevel(), ruleErrPropagation(), ruleUserFnContext(), ruleFlushBeforeTerminal(), ruleBodyTerminates(), ruleTerminalPropagation(), ruleDeadEmission(), ruleObservableParamUsed(), ruleLateEmission(), ruleSlotCtxArgument(), ruleCallbackCtxUsed(), ruleDeadContextStore(), ruleHomonymWrapper(), ruleIncorporateBeforeDecide(), ruleTwinAgreement(), ruleHomonymCalled(), ruleLiftResult(), ruleCapabilityWidening(), ruleReadDataBeforeError(), ruleFlushErrorChecked(), ruleReadLinePrefixUsed()},
		Explanation: "Structural clauses only; equality of each emitted value with the wrapped function's result on all inputs is NOT decided. On the plugin packages the property names: an operator called Stable sorts with a stable algorithm (STABLE-MEANS-STABLE); " +
			"no function that receives a slice writes through it or a derived sub-slice, including append onto it (NO-INPUT-MUTATION, taint over slicing, conversions and sub-slice-returning standard functions); an emitted slice is never the operator's reused buffer " +
			"(NO-POST-DELIVERY-MUTATION, e.g. a read buffer allocated outside the loop); the byte flavour never classifies single bytes with unicode.Is* (FLAVOUR-AGREEMENT); and the core-contract rules are re-run with plugin scope: error results become Error notifications " +
			"(ERR-RESULT-USED), sources are released (RELEASE), contexts flow (CTX-PROVENANCE), state is per subscription (STATE-LEVEL), errors propagate (ERR-PROPAGATION), user functions run in protected places (USER-FN-CONTEXT).",
		NotDecided:  "value equality with the wrapped library function, round-trip identity of encoders/decoders, that sorting yields a sorted permutation, chunk concatenation of readers — all quantify over input values.",
		Assumptions: []string{"the documented aliasing behaviour of the standard library functions listed in the checker"},
		Floors:      map[string]int{"stable_operators": 1, "slice_receiving_functions": 20, "unicode_classifications": 4, "acquisitions": 150, "lift_functions": 20, "lift_returns": 20, "io_param_assertions": 1},
		Controls: map[string]string{
			"plugins/sort/zz_verif_controls_c18.go":    pluginControl("rosort", []string{`"context"`, `"sort"`, `"github.com/samber/ro"`}, controlsC18Sort),
			"plugins/bytes/zz_verif_controls_c18.go":   pluginControl("robytes", []string{`"bytes"`, `"unicode"`}, controlsC18Bytes),
			"zz_verif_controls_c03.go":                 roControl(controlsC03),
			"zz_verif_controls_c04.go":                 roControl(controlsC04),
			"zz_verif_controls_c05.go":                 roControl(controlsC05),
			"zz_verif_controls_c07.go":                 roControl(controlsC07),
			"zz_verif_controls_c09.go":                 roControl(controlsC09 + controlsC09b),
			"zz_verif_controls_c12.go":                 roControl(controlsC12),
			"plugins/stdio/zz_verif_controls_c18rl.go": pluginControl("rostdio", []string{`"bufio"`}, controlsReadLine),
			"zz_verif_controls_c18read.go":             roControl(controlsReadDataBeforeError + controlsFlushError),
		},
	}
}

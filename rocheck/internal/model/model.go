package model

import (
	"fmt"
	"go/ast"
	"go/token"
	"go/types"
	"sort"
	"strings"

	"golang.org/x/tools/go/packages"

	"rocheck/internal/load"
)

// Model is the structural model of the loaded program.
type Model struct {
	Prog *load.Program
	Obj  *Objects

	Pkgs  []*packages.Package // analysed samber/ro packages (roots)
	Decls map[*types.Func]*DeclInfo
	Defs  map[types.Object][]DefSite // value definitions of local variables
	SCs   []*SC

	parents map[*packages.Package]map[ast.Node]ast.Node
}

// DeclInfo is a function declaration with its package.
type DeclInfo struct {
	Fn   *types.Func
	Decl *ast.FuncDecl
	Pkg  *packages.Package
}

// DefSite is one definition of a variable. Expr is nil when the value is not a single
// expression (tuple assignment, range, ++, op=).
type DefSite struct {
	Expr ast.Expr
	Pos  token.Pos
	Node ast.Node
}

// SC is a subscribe closure: the function passed to an observable constructor.
type SC struct {
	Pkg   *packages.Package
	Lit   *ast.FuncLit
	Decl  *ast.FuncDecl // enclosing top-level declaration
	App   *ast.FuncLit  // application literal func(Observable) Observable enclosing the SC, or nil
	Chain []ast.Node    // enclosing function nodes, outermost first, SC last
	Name  string        // enclosing declaration name (+ "#k" when it holds several SCs)

	CtorCall *ast.CallExpr
	Ctor     *CtorInfo
	Mode     Mode

	Ctx0 *types.Var // nil when the constructor's subscribe function has no context
	Dest *types.Var

	Body      *Ctx
	Ctxs      []*Ctx
	SubSites  []*SubSite
	Emits     []*EmitSite
	UserCalls []*UserCall
	Gos       []*GoSite
	Timers    []*TimerSite
	Blocks    []*BlockSite
	SubOps    []*SubOp
	Teardowns []*TeardownRet
	Stores    []*Store
	FnPlaces  map[ast.Node][]FnPlace // function node -> contexts in which its body was walked
	Inlined   []*ast.FuncDecl        // helper declarations inlined into this SC
	Unknown   []string               // constructs the walker did not understand (fail-closed input for rules)
	Frames    int

	UserParams map[*types.Var]bool // function/observable-typed parameters of enclosing API functions
}

func (s *SC) String() string { return ShortPkg(s.Pkg.PkgPath) + "." + s.Name }

// Info is the types.Info of the SC's package.
func (s *SC) Info() *types.Info { return s.Pkg.TypesInfo }

// Build constructs the model over the given root packages.
func Build(prog *load.Program) (*Model, error) {
	obj, err := Resolve(prog)
	if err != nil {
		return nil, err
	}
	m := &Model{Prog: prog, Obj: obj, Decls: map[*types.Func]*DeclInfo{}, Defs: map[types.Object][]DefSite{},
		parents: map[*packages.Package]map[ast.Node]ast.Node{}}
	for _, p := range prog.Roots {
		if strings.HasPrefix(p.PkgPath, load.RoPath) {
			m.Pkgs = append(m.Pkgs, p)
		}
	}
	if len(m.Pkgs) == 0 {
		return nil, fmt.Errorf("no samber/ro packages among roots")
	}
	for _, p := range m.Pkgs {
		m.indexPackage(p)
	}
	for _, p := range m.Pkgs {
		m.findSCs(p)
	}
	sort.SliceStable(m.SCs, func(i, j int) bool {
		a, b := m.SCs[i], m.SCs[j]
		if a.Pkg.PkgPath != b.Pkg.PkgPath {
			return a.Pkg.PkgPath < b.Pkg.PkgPath
		}
		return a.Lit.Pos() < b.Lit.Pos()
	})
	// names
	count := map[string]int{}
	for _, sc := range m.SCs {
		count[sc.Pkg.PkgPath+"."+declName(sc.Decl)]++
	}
	seen := map[string]int{}
	for _, sc := range m.SCs {
		k := sc.Pkg.PkgPath + "." + declName(sc.Decl)
		seen[k]++
		sc.Name = declName(sc.Decl)
		if count[k] > 1 {
			sc.Name = fmt.Sprintf("%s#%d", sc.Name, seen[k])
		}
	}
	for _, sc := range m.SCs {
		m.walkSC(sc)
	}
	return m, nil
}

func declName(fd *ast.FuncDecl) string {
	if fd == nil {
		return "<init>"
	}
	if fd.Recv != nil && len(fd.Recv.List) == 1 {
		return load.RecvTypeName(fd.Recv.List[0].Type) + "." + fd.Name.Name
	}
	return fd.Name.Name
}

// DeclName is the exported form.
func DeclName(fd *ast.FuncDecl) string { return declName(fd) }

func (m *Model) indexPackage(p *packages.Package) {
	par := map[ast.Node]ast.Node{}
	m.parents[p] = par
	info := p.TypesInfo
	for _, f := range p.Syntax {
		var stack []ast.Node
		ast.Inspect(f, func(n ast.Node) bool {
			if n == nil {
				stack = stack[:len(stack)-1]
				return false
			}
			if len(stack) > 0 {
				par[n] = stack[len(stack)-1]
			}
			stack = append(stack, n)
			switch x := n.(type) {
			case *ast.FuncDecl:
				if fn, _ := info.Defs[x.Name].(*types.Func); fn != nil {
					m.Decls[fn] = &DeclInfo{Fn: fn, Decl: x, Pkg: p}
				}
			case *ast.AssignStmt:
				if len(x.Lhs) == len(x.Rhs) && (x.Tok == token.ASSIGN || x.Tok == token.DEFINE) {
					for i, l := range x.Lhs {
						if id, ok := l.(*ast.Ident); ok {
							if o := objOf(info, id); o != nil {
								m.Defs[o] = append(m.Defs[o], DefSite{Expr: x.Rhs[i], Pos: x.Pos(), Node: x})
							}
						}
					}
				} else {
					for _, l := range x.Lhs {
						if id, ok := l.(*ast.Ident); ok {
							if o := objOf(info, id); o != nil {
								m.Defs[o] = append(m.Defs[o], DefSite{Pos: x.Pos(), Node: x})
							}
						}
					}
				}
			case *ast.ValueSpec:
				for i, id := range x.Names {
					o := info.Defs[id]
					if o == nil {
						continue
					}
					if len(x.Values) == len(x.Names) {
						m.Defs[o] = append(m.Defs[o], DefSite{Expr: x.Values[i], Pos: x.Pos(), Node: x})
					} else if len(x.Values) > 0 {
						m.Defs[o] = append(m.Defs[o], DefSite{Pos: x.Pos(), Node: x})
					}
				}
			case *ast.IncDecStmt:
				if id, ok := x.X.(*ast.Ident); ok {
					if o := objOf(info, id); o != nil {
						m.Defs[o] = append(m.Defs[o], DefSite{Pos: x.Pos(), Node: x})
					}
				}
			case *ast.RangeStmt:
				if x.Tok == token.ASSIGN || x.Tok == token.DEFINE {
					for _, e := range []ast.Expr{x.Key, x.Value} {
						if id, ok := e.(*ast.Ident); ok && id != nil {
							if o := objOf(info, id); o != nil {
								m.Defs[o] = append(m.Defs[o], DefSite{Pos: x.Pos(), Node: x})
							}
						}
					}
				}
			}
			return true
		})
	}
}

func objOf(info *types.Info, id *ast.Ident) types.Object {
	if id == nil || id.Name == "_" {
		return nil
	}
	if o := info.Defs[id]; o != nil {
		return o
	}
	return info.Uses[id]
}

// Parent returns the syntactic parent of n in package p.
func (m *Model) Parent(p *packages.Package, n ast.Node) ast.Node { return m.parents[p][n] }

// EnclosingFuncs returns the function nodes enclosing n (outermost first). n itself is
// included when it is a function node.
func (m *Model) EnclosingFuncs(p *packages.Package, n ast.Node) []ast.Node {
	var rev []ast.Node
	for c := n; c != nil; c = m.parents[p][c] {
		switch c.(type) {
		case *ast.FuncDecl, *ast.FuncLit:
			rev = append(rev, c)
		}
	}
	for i, j := 0, len(rev)-1; i < j; i, j = i+1, j-1 {
		rev[i], rev[j] = rev[j], rev[i]
	}
	return rev
}

// IsAppLit reports whether lit is an application literal: func(Observable[A]) Observable[B].
func (m *Model) IsAppLit(info *types.Info, lit *ast.FuncLit) bool {
	sig, _ := info.TypeOf(lit).(*types.Signature)
	if sig == nil || sig.Params().Len() != 1 || sig.Results().Len() != 1 {
		return false
	}
	return IsNamed(sig.Params().At(0).Type(), m.Obj.Observable) && IsNamed(sig.Results().At(0).Type(), m.Obj.Observable)
}

func (m *Model) findSCs(p *packages.Package) {
	info := p.TypesInfo
	for _, f := range p.Syntax {
		ast.Inspect(f, func(n ast.Node) bool {
			call, ok := n.(*ast.CallExpr)
			if !ok {
				return true
			}
			callee := Callee(info, call)
			ci := m.Obj.Ctors[callee]
			if ci == nil {
				return true
			}
			for _, a := range call.Args {
				lit, ok := ast.Unparen(a).(*ast.FuncLit)
				if !ok {
					continue
				}
				sig, _ := info.TypeOf(lit).(*types.Signature)
				ctxIdx, destIdx, ok := m.Obj.IsSubscribeSig(sig)
				if !ok {
					continue
				}
				sc := &SC{Pkg: p, Lit: lit, CtorCall: call, Ctor: ci, Mode: ci.Mode, UserParams: map[*types.Var]bool{}}
				if ci.ModeArg >= 0 && ci.ModeArg < len(call.Args) {
					if tv, ok := info.Types[call.Args[ci.ModeArg]]; ok {
						sc.Mode = m.Obj.ModeOfValue(tv.Value)
					}
				}
				params := flattenParams(info, lit.Type.Params)
				if destIdx < len(params) {
					sc.Dest = params[destIdx]
				}
				if ctxIdx >= 0 && ctxIdx < len(params) {
					sc.Ctx0 = params[ctxIdx]
				}
				sc.Chain = m.EnclosingFuncs(p, lit)
				for _, c := range sc.Chain {
					switch x := c.(type) {
					case *ast.FuncDecl:
						sc.Decl = x
					case *ast.FuncLit:
						if x != lit && m.IsAppLit(info, x) {
							sc.App = x
						}
					}
					if c == lit {
						break
					}
					var ft *ast.FuncType
					switch x := c.(type) {
					case *ast.FuncDecl:
						ft = x.Type
					case *ast.FuncLit:
						ft = x.Type
					}
					for _, v := range flattenParams(info, ft.Params) {
						if v != nil {
							sc.UserParams[v] = true
						}
					}
				}
				m.SCs = append(m.SCs, sc)
			}
			return true
		})
	}
}

func flattenParams(info *types.Info, fl *ast.FieldList) []*types.Var {
	var out []*types.Var
	if fl == nil {
		return out
	}
	for _, f := range fl.List {
		if len(f.Names) == 0 {
			out = append(out, nil)
			continue
		}
		for _, n := range f.Names {
			v, _ := info.Defs[n].(*types.Var)
			out = append(out, v)
		}
	}
	return out
}

// FlattenParams is the exported form.
func FlattenParams(info *types.Info, fl *ast.FieldList) []*types.Var { return flattenParams(info, fl) }

// SCByName finds an SC by package-short-name-qualified name, e.g. "ro.MergeAll".
func (m *Model) SCByName(name string) *SC {
	for _, sc := range m.SCs {
		if sc.String() == name {
			return sc
		}
	}
	return nil
}

// InScope reports whether the SC's package is one of the given package paths.
func InScope(sc *SC, scope map[string]bool) bool { return scope[sc.Pkg.PkgPath] }

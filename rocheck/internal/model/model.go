package model

import (
	"fmt"
	"go/ast"
	"go/token"
	"go/types"
	"rocheck/internal/lockset"
	"sort"
	"strings"

	"golang.org/x/tools/go/packages"

	"rocheck/internal/load"
)

// Model is the structural model of the loaded program.
type Model struct {
	Prog *load.Program
	Obj  *Objects

	Pkgs  []*packages.Package // analysed samber/ro packages (roots)
	Decls map[*types.Func]*DeclInfo
	Defs  map[types.Object][]DefSite // value definitions of local variables
	SCs   []*SC

	parents map[*packages.Package]map[ast.Node]ast.Node
}

// DeclInfo is a function declaration with its package.
type DeclInfo struct {
	Fn   *types.Func
	Decl *ast.FuncDecl
	Pkg  *packages.Package
}

// DefSite is one definition of a variable. Expr is nil when the value is not a single
// expression (tuple assignment, range, ++, op=).
type DefSite struct {
	Expr ast.Expr
	Pos  token.Pos
	Node ast.Node
}

// SC is a subscribe closure: the function passed to an observable constructor.
type SC struct {
	Pkg   *packages.Package
	Lit   *ast.FuncLit
	Decl  *ast.FuncDecl // enclosing top-level declaration
	App   *ast.FuncLit  // application literal func(Observable) Observable enclosing the SC, or nil
	Chain []ast.Node    // enclosing function nodes, outermost first, SC last
	Name  string        // enclosing declaration name (+ "#k" when it holds several SCs)

	CtorCall *ast.CallExpr
	Ctor     *CtorInfo
	Mode     Mode

	Ctx0 *types.Var // nil when the constructor's subscribe function has no context
	Dest *types.Var

	Body      *Ctx
	Ctxs      []*Ctx
	SubSites  []*SubSite
	Emits     []*EmitSite
	UserCalls []*UserCall
	Gos       []*GoSite
	Timers    []*TimerSite
	Blocks    []*BlockSite
	SubOps    []*SubOp
	Teardowns []*TeardownRet
	Stores    []*Store
	FnPlaces  map[ast.Node][]FnPlace // function node -> contexts in which its body was walked
	Inlined   []*ast.FuncDecl        // helper declarations inlined into this SC
	Unknown   []string               // constructs the walker did not understand (fail-closed input for rules)
	Frames    int

	UserParams map[*types.Var]bool // function/observable-typed parameters of enclosing API functions
}

func (s *SC) String() string { return ShortPkg(s.Pkg.PkgPath) + "." + s.Name }

// Info is the types.Info of the SC's package.
func (s *SC) Info() *types.Info { return s.Pkg.TypesInfo }

// Build constructs the model over the given root packages.
func Build(prog *load.Program) (*Model, error) {
	obj, err := Resolve(prog)
	if err != nil {
		return nil, err
	}
	m := &Model{Prog: prog, Obj: obj, Decls: map[*types.Func]*DeclInfo{}, Defs: map[types.Object][]DefSite{},
		parents: map[*packages.Package]map[ast.Node]ast.Node{}}
	for _, p := range prog.Roots {
		if strings.HasPrefix(p.PkgPath, load.RoPath) {
			m.Pkgs = append(m.Pkgs, p)
		}
	}
	if len(m.Pkgs) == 0 {
		return nil, fmt.Errorf("no samber/ro packages among roots")
	}
	for _, p := range m.Pkgs {
		m.indexPackage(p)
	}
	m.computeAliases()
	for _, p := range m.Pkgs {
		m.findSCs(p)
	}
	sort.SliceStable(m.SCs, func(i, j int) bool {
		a, b := m.SCs[i], m.SCs[j]
		if a.Pkg.PkgPath != b.Pkg.PkgPath {
			return a.Pkg.PkgPath < b.Pkg.PkgPath
		}
		return a.Lit.Pos() < b.Lit.Pos()
	})
	// names
	count := map[string]int{}
	for _, sc := range m.SCs {
		count[sc.Pkg.PkgPath+"."+declName(sc.Decl)]++
	}
	seen := map[string]int{}
	for _, sc := range m.SCs {
		k := sc.Pkg.PkgPath + "." + declName(sc.Decl)
		seen[k]++
		sc.Name = declName(sc.Decl)
		if count[k] > 1 {
			sc.Name = fmt.Sprintf("%s#%d", sc.Name, seen[k])
		}
	}
	for _, sc := range m.SCs {
		m.walkSC(sc)
	}
	return m, nil
}

func declName(fd *ast.FuncDecl) string {
	if fd == nil {
		return "<init>"
	}
	if fd.Recv != nil && len(fd.Recv.List) == 1 {
		return load.RecvTypeName(fd.Recv.List[0].Type) + "." + fd.Name.Name
	}
	return fd.Name.Name
}

// DeclName is the exported form.
func DeclName(fd *ast.FuncDecl) string { return declName(fd) }

func (m *Model) indexPackage(p *packages.Package) {
	par := map[ast.Node]ast.Node{}
	m.parents[p] = par
	info := p.TypesInfo
	for _, f := range p.Syntax {
		var stack []ast.Node
		ast.Inspect(f, func(n ast.Node) bool {
			if n == nil {
				stack = stack[:len(stack)-1]
				return false
			}
			if len(stack) > 0 {
				par[n] = stack[len(stack)-1]
			}
			stack = append(stack, n)
			switch x := n.(type) {
			case *ast.FuncDecl:
				if fn, _ := info.Defs[x.Name].(*types.Func); fn != nil {
					m.Decls[fn] = &DeclInfo{Fn: fn, Decl: x, Pkg: p}
				}
			case *ast.AssignStmt:
				if len(x.Lhs) == len(x.Rhs) && (x.Tok == token.ASSIGN || x.Tok == token.DEFINE) {
					for i, l := range x.Lhs {
						if id, ok := l.(*ast.Ident); ok {
							if o := objOf(info, id); o != nil {
								m.Defs[o] = append(m.Defs[o], DefSite{Expr: x.Rhs[i], Pos: x.Pos(), Node: x})
							}
						}
					}
				} else {
					for _, l := range x.Lhs {
						if id, ok := l.(*ast.Ident); ok {
							if o := objOf(info, id); o != nil {
								m.Defs[o] = append(m.Defs[o], DefSite{Pos: x.Pos(), Node: x})
							}
						}
					}
				}
			case *ast.ValueSpec:
				for i, id := range x.Names {
					o := info.Defs[id]
					if o == nil {
						continue
					}
					if len(x.Values) == len(x.Names) {
						m.Defs[o] = append(m.Defs[o], DefSite{Expr: x.Values[i], Pos: x.Pos(), Node: x})
					} else if len(x.Values) > 0 {
						m.Defs[o] = append(m.Defs[o], DefSite{Pos: x.Pos(), Node: x})
					}
				}
			case *ast.IncDecStmt:
				if id, ok := x.X.(*ast.Ident); ok {
					if o := objOf(info, id); o != nil {
						m.Defs[o] = append(m.Defs[o], DefSite{Pos: x.Pos(), Node: x})
					}
				}
			case *ast.RangeStmt:
				if x.Tok == token.ASSIGN || x.Tok == token.DEFINE {
					for _, e := range []ast.Expr{x.Key, x.Value} {
						if id, ok := e.(*ast.Ident); ok && id != nil {
							if o := objOf(info, id); o != nil {
								m.Defs[o] = append(m.Defs[o], DefSite{Pos: x.Pos(), Node: x})
							}
						}
					}
				}
			}
			return true
		})
	}
}

func objOf(info *types.Info, id *ast.Ident) types.Object {
	if id == nil || id.Name == "_" {
		return nil
	}
	if o := info.Defs[id]; o != nil {
		return o
	}
	return info.Uses[id]
}

// Parent returns the syntactic parent of n in package p.
func (m *Model) Parent(p *packages.Package, n ast.Node) ast.Node { return m.parents[p][n] }

// EnclosingFuncs returns the function nodes enclosing n (outermost first). n itself is
// included when it is a function node.
func (m *Model) EnclosingFuncs(p *packages.Package, n ast.Node) []ast.Node {
	var rev []ast.Node
	for c := n; c != nil; c = m.parents[p][c] {
		switch c.(type) {
		case *ast.FuncDecl, *ast.FuncLit:
			rev = append(rev, c)
		}
	}
	for i, j := 0, len(rev)-1; i < j; i, j = i+1, j-1 {
		rev[i], rev[j] = rev[j], rev[i]
	}
	return rev
}

// IsAppLit reports whether lit is an application literal: func(Observable[A]) Observable[B].
func (m *Model) IsAppLit(info *types.Info, lit *ast.FuncLit) bool {
	sig, _ := info.TypeOf(lit).(*types.Signature)
	if sig == nil || sig.Params().Len() != 1 || sig.Results().Len() != 1 {
		return false
	}
	return IsNamed(sig.Params().At(0).Type(), m.Obj.Observable) && IsNamed(sig.Results().At(0).Type(), m.Obj.Observable)
}

func (m *Model) findSCs(p *packages.Package) {
	info := p.TypesInfo
	for _, f := range p.Syntax {
		ast.Inspect(f, func(n ast.Node) bool {
			call, ok := n.(*ast.CallExpr)
			if !ok {
				return true
			}
			callee := Callee(info, call)
			ci := m.Obj.Ctors[callee]
			if ci == nil {
				return true
			}
			for _, a := range call.Args {
				lit := m.subscribeLiteral(p, a)
				if lit == nil {
					continue
				}
				sig, _ := info.TypeOf(lit).(*types.Signature)
				ctxIdx, destIdx, ok := m.Obj.IsSubscribeSig(sig)
				if !ok {
					continue
				}
				sc := &SC{Pkg: p, Lit: lit, CtorCall: call, Ctor: ci, Mode: ci.Mode, UserParams: map[*types.Var]bool{}}
				if ci.ModeArg >= 0 && ci.ModeArg < len(call.Args) {
					if tv, ok := info.Types[call.Args[ci.ModeArg]]; ok {
						sc.Mode = m.Obj.ModeOfValue(tv.Value)
					}
				}
				params := flattenParams(info, lit.Type.Params)
				if destIdx < len(params) {
					sc.Dest = params[destIdx]
				}
				if ctxIdx >= 0 && ctxIdx < len(params) {
					sc.Ctx0 = params[ctxIdx]
				}
				sc.Chain = m.EnclosingFuncs(p, lit)
				// a subscribe function that was extracted into a helper returning it is named after (and applied in) the
				// function that hands it to the constructor
				if ctorChain := m.EnclosingFuncs(p, call); len(ctorChain) > 0 && len(sc.Chain) > 0 && ctorChain[0] != sc.Chain[0] {
					sc.Chain = append(append([]ast.Node{}, ctorChain...), sc.Chain...)
				}
				for _, c := range sc.Chain {
					switch x := c.(type) {
					case *ast.FuncDecl:
						if sc.Decl == nil {
							sc.Decl = x
						}
					case *ast.FuncLit:
						if x != lit && m.IsAppLit(info, x) {
							sc.App = x
						}
					}
					if c == lit {
						break
					}
					var ft *ast.FuncType
					switch x := c.(type) {
					case *ast.FuncDecl:
						ft = x.Type
					case *ast.FuncLit:
						ft = x.Type
					}
					for _, v := range flattenParams(info, ft.Params) {
						if v != nil {
							sc.UserParams[v] = true
						}
					}
				}
				m.SCs = append(m.SCs, sc)
			}
			return true
		})
	}
}

// subscribeLiteral resolves the subscribe function handed to an observable constructor: the literal itself, a local
// closure variable bound to one literal, or a call of a same-package function whose single return hands back a literal.
func (m *Model) subscribeLiteral(p *packages.Package, a ast.Expr) *ast.FuncLit {
	info := p.TypesInfo
	switch x := ast.Unparen(a).(type) {
	case *ast.FuncLit:
		return x
	case *ast.Ident:
		o := info.Uses[x]
		if o == nil {
			return nil
		}
		var lit *ast.FuncLit
		for _, d := range m.Defs[o] {
			if d.Expr == nil {
				return nil
			}
			l, ok := ast.Unparen(d.Expr).(*ast.FuncLit)
			if !ok || lit != nil {
				return nil
			}
			lit = l
		}
		return lit
	case *ast.CallExpr:
		d := m.Decls[Callee(info, x)]
		if d == nil || d.Pkg != p || d.Decl.Body == nil {
			return nil
		}
		var lit *ast.FuncLit
		n := 0
		ast.Inspect(d.Decl.Body, func(y ast.Node) bool {
			if _, ok := y.(*ast.FuncLit); ok {
				return false // returns of nested literals are not the helper's
			}
			if r, ok := y.(*ast.ReturnStmt); ok && len(r.Results) == 1 {
				n++
				lit = m.subscribeLiteral(d.Pkg, r.Results[0])
			}
			return true
		})
		if n == 1 {
			return lit
		}
	}
	return nil
}

func flattenParams(info *types.Info, fl *ast.FieldList) []*types.Var {
	var out []*types.Var
	if fl == nil {
		return out
	}
	for _, f := range fl.List {
		if len(f.Names) == 0 {
			out = append(out, nil)
			continue
		}
		for _, n := range f.Names {
			v, _ := info.Defs[n].(*types.Var)
			out = append(out, v)
		}
	}
	return out
}

// FlattenParams is the exported form.
func FlattenParams(info *types.Info, fl *ast.FieldList) []*types.Var { return flattenParams(info, fl) }

// SCByName finds an SC by package-short-name-qualified name, e.g. "ro.MergeAll".
func (m *Model) SCByName(name string) *SC {
	for _, sc := range m.SCs {
		if sc.String() == name {
			return sc
		}
	}
	return nil
}

// InScope reports whether the SC's package is one of the given package paths.
func InScope(sc *SC, scope map[string]bool) bool { return scope[sc.Pkg.PkgPath] }

// aliases: local variables that are nothing but another name for a variable, a field or a method value.
var aliases map[types.Object]ast.Expr

// methodAliases: local variables bound once to a method value (next := destination.NextWithContext).
var methodAliases map[types.Object]*types.Func

// methodAliasExprs: the method value expression such a local was bound to.
var methodAliasExprs map[types.Object]ast.Expr

// MethodValueOf returns the selector `x.M` a local was bound to once (next := x.M), or nil.
func MethodValueOf(o types.Object) *ast.SelectorExpr {
	if e := methodAliasExprs[o]; e != nil {
		if sel, ok := ast.Unparen(e).(*ast.SelectorExpr); ok {
			return sel
		}
	}
	return nil
}

// AliasOf returns the expression a pure alias variable stands for (nil when o is not one).
func AliasOf(o types.Object) ast.Expr { return aliases[o] }

func (m *Model) computeAliases() {
	aliases = map[types.Object]ast.Expr{}
	methodAliases = map[types.Object]*types.Func{}
	outcomes := map[types.Object]ast.Expr{}
	methodAliasExprs = map[types.Object]ast.Expr{}
	for o, defs := range m.Defs {
		v, ok := o.(*types.Var)
		if !ok || v.IsField() || len(defs) != 1 || defs[0].Expr == nil || v.Pkg() == nil || v.Parent() == v.Pkg().Scope() {
			continue
		}
		var info *types.Info
		for _, p := range m.Pkgs {
			if p.Types == v.Pkg() {
				info = p.TypesInfo
			}
		}
		if info == nil {
			continue
		}
		// parameters have an implicit definition (the argument): only variables whose single definition is their
		// declaration (`x := e`, `var x = e`) qualify
		isParam := true
		switch n := defs[0].Node.(type) {
		case *ast.AssignStmt:
			isParam = n.Tok != token.DEFINE
		case *ast.ValueSpec:
			isParam = false
		}
		e := ast.Unparen(defs[0].Expr)
		// swapped := atomic.CompareAndSwapInt32(&x, a, b): the local is the outcome of a one-shot atomic decision, which
		// cannot go stale; a condition that tests it is read as testing the call
		if call, ok := e.(*ast.CallExpr); ok && !isParam {
			if fn := Callee(info, call); fn != nil && fn.Pkg() != nil && fn.Pkg().Path() == "sync/atomic" && strings.HasPrefix(fn.Name(), "CompareAndSwap") {
				outcomes[o] = defs[0].Expr
			}
			continue
		}
		addr := false
		if u, ok := e.(*ast.UnaryExpr); ok && u.Op == token.AND {
			e = ast.Unparen(u.X)
			addr = true
		}
		// a copy of a value is another name for it only while the original is never written again: the root variable
		// must have no definition besides its own declaration (a parameter, or a local defined once); a field is
		// aliased only through its address
		if se, isSel := e.(*ast.SelectorExpr); isSel && !addr {
			sel, ok := info.Selections[se]
			switch {
			case ok && sel.Kind() == types.MethodVal:
			case ok && sel.Kind() == types.FieldVal:
				// a copy of a field of a struct *value* that is itself never written (config.ResetOnError of a by-value
				// parameter) cannot diverge from the field; a field reached through a pointer can
				rid, isID := ast.Unparen(se.X).(*ast.Ident)
				if !isID {
					continue
				}
				if t := info.TypeOf(rid); t == nil {
					continue
				} else if _, isPtr := t.Underlying().(*types.Pointer); isPtr {
					continue
				} else if _, isStruct := t.Underlying().(*types.Struct); !isStruct {
					continue
				}
			default:
				continue
			}
		}
		stable := true
		ast.Inspect(e, func(n ast.Node) bool {
			if id, ok := n.(*ast.Ident); ok {
				if rv, isVar := info.Uses[id].(*types.Var); isVar && !rv.IsField() {
					if len(m.Defs[rv]) > 1 {
						stable = false
					}
					if len(m.Defs[rv]) == 1 {
						switch n := m.Defs[rv][0].Node.(type) {
						case *ast.AssignStmt:
							if n.Tok != token.DEFINE {
								stable = false
							}
						case *ast.ValueSpec:
						default:
							stable = false
						}
					}
				}
			}
			return true
		})
		if !stable {
			continue
		}
		pure := true
		for x := e; pure; {
			switch y := x.(type) {
			case *ast.Ident:
				if _, isVar := info.Uses[y].(*types.Var); !isVar {
					pure = false
				}
				x = nil
			case *ast.SelectorExpr:
				if sel, ok := info.Selections[y]; ok && sel.Kind() == types.FieldVal {
					x = ast.Unparen(y.X)
				} else if ok && sel.Kind() == types.MethodVal {
					if fn, isFn := sel.Obj().(*types.Func); isFn && x == e && !isParam {
						methodAliases[o] = fn.Origin()
						methodAliasExprs[o] = defs[0].Expr
					}
					pure = false
				} else {
					pure = false
				}
			default:
				pure = false
			}
			if x == nil {
				break
			}
		}
		if pure && !isParam {
			aliases[o] = defs[0].Expr
		}
	}
	lockset.Alias = AliasOf
	aliasUses = map[*ast.Ident]ast.Expr{}
	outcomeUses = map[*ast.Ident]ast.Expr{}
	for _, p := range m.Pkgs {
		for id, o := range p.TypesInfo.Uses {
			if a := aliases[o]; a != nil {
				aliasUses[id] = a
			}
			if a := outcomes[o]; a != nil {
				outcomeUses[id] = a
			}
		}
	}
}

var aliasUses map[*ast.Ident]ast.Expr
var outcomeUses map[*ast.Ident]ast.Expr

// OutcomeOfIdent returns the atomic compare-and-swap call whose result a use of a once-defined local holds (nil otherwise).
func OutcomeOfIdent(id *ast.Ident) ast.Expr { return outcomeUses[id] }

// AliasOfIdent returns what a use of a pure alias variable stands for (nil otherwise).
func AliasOfIdent(id *ast.Ident) ast.Expr { return aliasUses[id] }

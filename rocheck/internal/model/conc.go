package model

import "go/token"

// Concurrency relation between emission contexts (DESIGN.md section 2, ordering facts S1-S4).
//
// Assumption of the relation (the property's own hypothesis): every individual source is
// sequential, i.e. the callbacks of one subscribe site never overlap each other.

// repeats reports whether code located in (ctx, slot) may run more than once per
// instance of ctx.
func repeats(c *Ctx, slot int) bool {
	switch c.Kind {
	case KSrc:
		return slot == SlotNext
	case KTimer:
		return true // a timer can be Reset and fire again
	}
	return false
}

// Multi reports whether several instances of c may be alive at the same time.
func Multi(c *Ctx) bool {
	if c == nil || c.Kind == KBody {
		return false
	}
	if c.Parent != nil && Multi(c.Parent) {
		return true
	}
	if c.Kind == KSrc && c.Awaited {
		return false
	}
	if c.Kind == KTeardown {
		return false
	}
	return c.InLoop || (c.Parent != nil && repeats(c.Parent, c.ParentSlot))
}

func pathToRoot(c *Ctx) []*Ctx {
	var p []*Ctx
	for ; c != nil; c = c.Parent {
		p = append(p, c)
	}
	// reverse: root first
	for i, j := 0, len(p)-1; i < j; i, j = i+1, j-1 {
		p[i], p[j] = p[j], p[i]
	}
	return p
}

// Place is a program point inside a context.
type Place struct {
	Ctx     *Ctx
	Slot    int
	BasePos token.Pos
	InLoop  bool
	Pos     token.Pos // actual position (orders places that share one inlined call)
}

// PlaceOf returns the place of a record.
func PlaceOf(r *Rec) Place { return Place{r.Ctx, r.Slot, r.BasePos, r.InLoop, r.Pos} }

// precedes reports whether place a comes before the creation of child in program order.
func precedes(a Place, child *Ctx) bool {
	if a.BasePos != child.BasePos {
		return a.BasePos < child.BasePos
	}
	// same statement of the entry function (both inside one inlined call): compare actual positions
	return a.Pos.IsValid() && child.Node != nil && a.Pos < child.Node.Pos()
}

// MayRunConcurrently reports whether code at place a may run at the same time as code
// at place b, and why.
func MayRunConcurrently(a, b Place) (bool, string) {
	if a.Ctx == b.Ctx {
		if Multi(a.Ctx) {
			return true, "several instances of " + a.Ctx.String() + " can be alive at once (created in a loop or in a repeatedly invoked callback without awaiting the previous one)"
		}
		return false, "same sequential context"
	}
	pa, pb := pathToRoot(a.Ctx), pathToRoot(b.Ctx)
	i := 0
	for i < len(pa) && i < len(pb) && pa[i] == pb[i] {
		i++
	}
	if i == 0 {
		return true, "unrelated contexts"
	}
	lca := pa[i-1]
	if Multi(lca) {
		return true, "their common ancestor " + lca.String() + " has several live instances"
	}
	switch {
	case i == len(pa): // a.Ctx is an ancestor of b.Ctx
		return ancestorVsDescendant(a, pb[i])
	case i == len(pb):
		return ancestorVsDescendant(b, pa[i])
	}
	ca, cb := pa[i], pb[i] // distinct children of lca
	first, second := ca, cb
	if cb.BasePos < ca.BasePos {
		first, second = cb, ca
	}
	_ = second
	// S2: the earlier sibling was awaited before the later one was created
	if first.Kind == KSrc && first.Awaited && ca.ParentSlot == cb.ParentSlot {
		return false, "S2: " + first.String() + " is awaited before " + second.String() + " is created"
	}
	// S3 between siblings: created in different slots of one source where one is terminal:
	// the terminal slot runs after every next slot returned
	if lca.Kind == KSrc && ca.ParentSlot != cb.ParentSlot {
		// a child created in the next slot outlives that callback; not ordered
	}
	return true, ca.String() + " and " + cb.String() + " are created independently under " + lca.String()
}

// ancestorVsDescendant: place a lies in an ancestor context A of the other place; child is
// the child of A on the path to the other place.
func ancestorVsDescendant(a Place, child *Ctx) (bool, string) {
	A := a.Ctx
	if child.Kind == KTeardown {
		// S4: the teardown of a subscription runs after its subscribe function returned; it may
		// still overlap callbacks of the sources (A's later callbacks)
		if A.Kind == KBody {
			return false, "S4: teardown runs after the subscribe function returned"
		}
		return true, "teardown may run while " + A.String() + " is still delivering"
	}
	if child.Kind == KSrc && child.Awaited {
		return false, "S2: " + child.String() + " is awaited inside " + A.String()
	}
	switch A.Kind {
	case KSrc:
		if child.ParentSlot != SlotNext {
			// created in a terminal slot: everything the source did in other slots happened before
			if a.Slot != child.ParentSlot {
				return false, "S3: " + child.String() + " is created in the terminal slot of " + A.String()
			}
			if precedes(a, child) {
				return false, "S1: precedes the creation of " + child.String() + " in the terminal slot"
			}
			return true, "follows the creation of " + child.String() + " in the same terminal slot"
		}
		return true, child.String() + " is created in the next slot of " + A.String() + " and outlives that callback"
	default: // KBody, KGo, KTimer: code that runs once per instance
		if !repeats(A, a.Slot) && precedes(a, child) && !(a.InLoop && child.InLoop) {
			return false, "S1: precedes the creation of " + child.String()
		}
		return true, "runs after " + child.String() + " was started"
	}
}

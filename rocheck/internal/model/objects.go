// Package model extracts, from the type-checked program, the structural model that
// all rules query (DESIGN.md section 2): subscribe closures (SCs), their levels,
// subscribe sites, emit sites, emission contexts, teardowns, goroutines, user-function
// calls. Identification is by resolved objects, never by text or position.
package model

import (
	"fmt"
	"go/ast"
	"go/constant"
	"go/token"
	"go/types"
	"sort"
	"strings"

	"golang.org/x/tools/go/packages"
	"golang.org/x/tools/go/types/typeutil"

	"rocheck/internal/load"
)

// Mode is the concurrency mode of an observable constructor.
type Mode int

const (
	ModeUnknown Mode = iota
	ModeSafe
	ModeUnsafe
	ModeEventuallySafe
)

func (m Mode) String() string {
	switch m {
	case ModeSafe:
		return "Safe"
	case ModeUnsafe:
		return "Unsafe"
	case ModeEventuallySafe:
		return "EventuallySafe"
	}
	return "Unknown"
}

// Objects are the resolved objects of package ro that the model keys on.
type Objects struct {
	Ro *packages.Package

	Observer, Observable, Subscription, Subscriber, Subject, Teardown, Unsubscribable, Connectable, Notification *types.TypeName

	ObserverMethods     map[*types.Func]string // origin method -> name
	ObservableMethods   map[*types.Func]string
	SubscriptionMethods map[*types.Func]string
	ConnectableMethods  map[*types.Func]string

	// constructor -> mode / whether the subscribe function takes a context
	Ctors map[*types.Func]*CtorInfo

	ObserverCtors    map[*types.Func]ObserverCtor // NewObserver, NewObserverWithContext, OnNext...
	SubscriberCtors  map[*types.Func]Mode         // NewSubscriber... (identity on an existing subscriber)
	NewSubscription  *types.Func
	RecoverUnhandled *types.Func

	ModeConsts map[string]Mode // constant name -> Mode, by the value of the ConcurrencyMode constants
	modeByVal  map[int64]Mode
}

// CtorInfo describes an observable constructor.
type CtorInfo struct {
	Fn          *types.Func
	Mode        Mode // ModeUnknown for NewObservableWithConcurrencyMode (mode is an argument)
	ModeArg     int  // index of the mode argument or -1
	Connectable bool
	Chain       []string // delegation chain followed to derive the mode
}

// ObserverCtor describes how the arguments of an observer constructor map to slots.
type ObserverCtor struct {
	Name  string
	Slots [3]int // argument index for next, error, complete; -1 = swallowed (empty callback)
	NoCtx bool   // callbacks take no context
}

const (
	SlotNext = iota
	SlotError
	SlotComplete
)

var SlotNames = [3]string{"next", "error", "complete"}

// Resolve finds the objects in the loaded ro package. Missing anchors are an error.
func Resolve(prog *load.Program) (*Objects, error) {
	ro := prog.ByPath[load.RoPath]
	if ro == nil || ro.Types == nil {
		return nil, fmt.Errorf("package %s not loaded", load.RoPath)
	}
	o := &Objects{Ro: ro,
		ObserverMethods: map[*types.Func]string{}, ObservableMethods: map[*types.Func]string{},
		SubscriptionMethods: map[*types.Func]string{}, ConnectableMethods: map[*types.Func]string{},
		Ctors: map[*types.Func]*CtorInfo{}, ObserverCtors: map[*types.Func]ObserverCtor{},
		SubscriberCtors: map[*types.Func]Mode{}, ModeConsts: map[string]Mode{}, modeByVal: map[int64]Mode{}}
	scope := ro.Types.Scope()
	var missing []string
	tn := func(name string) *types.TypeName {
		t, _ := scope.Lookup(name).(*types.TypeName)
		if t == nil {
			missing = append(missing, "type "+name)
		}
		return t
	}
	fn := func(name string) *types.Func {
		f, _ := scope.Lookup(name).(*types.Func)
		if f == nil {
			missing = append(missing, "func "+name)
		}
		return f
	}
	o.Observer, o.Observable, o.Subscription = tn("Observer"), tn("Observable"), tn("Subscription")
	o.Subscriber, o.Subject, o.Teardown = tn("Subscriber"), tn("Subject"), tn("Teardown")
	o.Unsubscribable, o.Connectable, o.Notification = tn("Unsubscribable"), tn("ConnectableObservable"), tn("Notification")
	if len(missing) > 0 {
		return nil, fmt.Errorf("unresolved anchors: %v", missing)
	}
	collect := func(t *types.TypeName, into map[*types.Func]string) {
		it, _ := t.Type().Underlying().(*types.Interface)
		if it == nil {
			missing = append(missing, "interface "+t.Name())
			return
		}
		for i := 0; i < it.NumMethods(); i++ {
			m := it.Method(i)
			into[m.Origin()] = m.Name()
		}
	}
	collect(o.Observer, o.ObserverMethods)
	collect(o.Observable, o.ObservableMethods)
	collect(o.Subscription, o.SubscriptionMethods)
	collect(o.Connectable, o.ConnectableMethods)

	// concurrency mode constants, by declared name suffix -> value
	for _, n := range []struct {
		name string
		m    Mode
	}{{"ConcurrencyModeSafe", ModeSafe}, {"ConcurrencyModeUnsafe", ModeUnsafe}, {"ConcurrencyModeEventuallySafe", ModeEventuallySafe}} {
		c, _ := scope.Lookup(n.name).(*types.Const)
		if c == nil {
			missing = append(missing, "const "+n.name)
			continue
		}
		v, _ := constant.Int64Val(c.Val())
		o.ModeConsts[n.name] = n.m
		o.modeByVal[v] = n.m
	}

	for _, oc := range []ObserverCtor{
		{"NewObserver", [3]int{0, 1, 2}, true},
		{"NewObserverWithContext", [3]int{0, 1, 2}, false},
		{"OnNext", [3]int{0, -1, -1}, true},
		{"OnNextWithContext", [3]int{0, -1, -1}, false},
		{"OnError", [3]int{-1, 0, -1}, true},
		{"OnErrorWithContext", [3]int{-1, 0, -1}, false},
		{"OnComplete", [3]int{-1, -1, 0}, true},
		{"OnCompleteWithContext", [3]int{-1, -1, 0}, false},
		{"NoopObserver", [3]int{-1, -1, -1}, false},
		{"PrintObserver", [3]int{-1, -1, -1}, false},
	} {
		if f := fn(oc.Name); f != nil {
			o.ObserverCtors[f] = oc
		}
	}
	for name, m := range map[string]Mode{"NewSubscriber": ModeSafe, "NewSafeSubscriber": ModeSafe, "NewUnsafeSubscriber": ModeUnsafe,
		"NewEventuallySafeSubscriber": ModeEventuallySafe, "NewSubscriberWithConcurrencyMode": ModeUnknown} {
		if f := fn(name); f != nil {
			o.SubscriberCtors[f] = m
		}
	}
	o.NewSubscription = fn("NewSubscription")
	o.RecoverUnhandled = fn("recoverUnhandledError")
	if len(missing) > 0 {
		return nil, fmt.Errorf("unresolved anchors: %v", missing)
	}
	if err := o.deriveCtors(); err != nil {
		return nil, err
	}
	return o, nil
}

// IsNamed reports whether t (after pointer stripping) is an instantiation of tn.
func IsNamed(t types.Type, tn *types.TypeName) bool {
	if t == nil || tn == nil {
		return false
	}
	n := load.NamedOf(t)
	return n != nil && n.Origin().Obj() == tn
}

// isSubscribeFunc reports whether sig looks like a subscribe function:
// func([ctx,] Observer[T]) Teardown.
func (o *Objects) IsSubscribeSig(sig *types.Signature) (ctxIdx, destIdx int, ok bool) {
	if sig == nil || sig.Results().Len() != 1 || !IsNamed(sig.Results().At(0).Type(), o.Teardown) {
		return 0, 0, false
	}
	ctxIdx, destIdx = -1, -1
	for i := 0; i < sig.Params().Len(); i++ {
		t := sig.Params().At(i).Type()
		if IsNamed(t, o.Observer) && destIdx < 0 {
			destIdx = i
		} else if isContext(t) && ctxIdx < 0 {
			ctxIdx = i
		}
	}
	return ctxIdx, destIdx, destIdx >= 0
}

func isContext(t types.Type) bool {
	n, _ := t.(*types.Named)
	return n != nil && n.Obj().Pkg() != nil && n.Obj().Pkg().Path() == "context" && n.Obj().Name() == "Context"
}

// IsContext is the exported form of isContext.
func IsContext(t types.Type) bool { return isContext(t) }

// deriveCtors finds every function of package ro that takes a subscribe function and
// returns an Observable/ConnectableObservable, and derives its mode by following its
// single-return delegation chain down to NewObservableWithConcurrencyMode(_, <const>).
func (o *Objects) deriveCtors() error {
	scope := o.Ro.Types.Scope()
	decls := map[*types.Func]*ast.FuncDecl{}
	for _, f := range o.Ro.Syntax {
		for _, d := range f.Decls {
			if fd, ok := d.(*ast.FuncDecl); ok && fd.Recv == nil {
				if obj, _ := o.Ro.TypesInfo.Defs[fd.Name].(*types.Func); obj != nil {
					decls[obj] = fd
				}
			}
		}
	}
	base, _ := scope.Lookup("NewObservableWithConcurrencyMode").(*types.Func)
	if base == nil {
		return fmt.Errorf("unresolved anchor: func NewObservableWithConcurrencyMode")
	}
	o.Ctors[base] = &CtorInfo{Fn: base, Mode: ModeUnknown, ModeArg: 1}
	var candidates []*types.Func
	for _, name := range scope.Names() {
		f, _ := scope.Lookup(name).(*types.Func)
		if f == nil || f == base {
			continue
		}
		sig := f.Type().(*types.Signature)
		if sig.Results().Len() != 1 {
			continue
		}
		rt := sig.Results().At(0).Type()
		if !IsNamed(rt, o.Observable) && !IsNamed(rt, o.Connectable) {
			continue
		}
		has := false
		for i := 0; i < sig.Params().Len(); i++ {
			if ps, ok := sig.Params().At(i).Type().Underlying().(*types.Signature); ok {
				if _, _, ok := o.IsSubscribeSig(ps); ok {
					has = true
				}
			}
		}
		if has {
			candidates = append(candidates, f)
		}
	}
	sort.Slice(candidates, func(i, j int) bool { return candidates[i].Name() < candidates[j].Name() })
	var derive func(f *types.Func, seen map[*types.Func]bool) (Mode, []string, bool)
	derive = func(f *types.Func, seen map[*types.Func]bool) (Mode, []string, bool) {
		if seen[f] {
			return ModeUnknown, nil, false
		}
		seen[f] = true
		fd := decls[f]
		if fd == nil || fd.Body == nil {
			return ModeUnknown, nil, false
		}
		// find the (single) call on the delegation path: walk all calls in the body
		var mode Mode
		var chain []string
		found := false
		ast.Inspect(fd.Body, func(n ast.Node) bool {
			if found {
				return false
			}
			call, ok := n.(*ast.CallExpr)
			if !ok {
				return true
			}
			callee, _ := typeutil.Callee(o.Ro.TypesInfo, call).(*types.Func)
			if callee == nil {
				return true
			}
			callee = callee.Origin()
			if callee == base {
				if len(call.Args) == 2 {
					if tv, ok := o.Ro.TypesInfo.Types[call.Args[1]]; ok && tv.Value != nil {
						v, _ := constant.Int64Val(tv.Value)
						if m, ok := o.modeByVal[v]; ok {
							mode, chain, found = m, []string{base.Name()}, true
							return false
						}
					}
				}
				return true
			}
			if _, isCand := decls[callee]; isCand && callee.Pkg() == o.Ro.Types {
				for _, c := range candidates {
					if c == callee {
						if m, ch, ok := derive(callee, seen); ok {
							mode, chain, found = m, append([]string{callee.Name()}, ch...), true
							return false
						}
					}
				}
			}
			return true
		})
		return mode, chain, found
	}
	for _, f := range candidates {
		m, chain, ok := derive(f, map[*types.Func]bool{})
		if !ok {
			// a function taking a subscribe func whose mode cannot be derived is recorded
			// with ModeUnknown; SCs built with it are reported undecided by the rules
			o.Ctors[f] = &CtorInfo{Fn: f, Mode: ModeUnknown, ModeArg: -1}
			continue
		}
		rt := f.Type().(*types.Signature).Results().At(0).Type()
		o.Ctors[f] = &CtorInfo{Fn: f, Mode: m, ModeArg: -1, Chain: chain, Connectable: IsNamed(rt, o.Connectable)}
	}
	return nil
}

// ModeOfValue maps the constant value of a ConcurrencyMode expression to a Mode.
func (o *Objects) ModeOfValue(v constant.Value) Mode {
	if v == nil {
		return ModeUnknown
	}
	i, ok := constant.Int64Val(v)
	if !ok {
		return ModeUnknown
	}
	return o.modeByVal[i]
}

// Callee resolves the static callee (origin of generic instantiations) of a call.
func Callee(info *types.Info, call *ast.CallExpr) *types.Func {
	fn, _ := typeutil.Callee(info, call).(*types.Func)
	if fn == nil {
		// a call through a local bound once to a method value: next := destination.NextWithContext; next(ctx, v)
		if id, ok := ast.Unparen(call.Fun).(*ast.Ident); ok {
			if o := info.Uses[id]; o != nil {
				if mf := methodAliases[o]; mf != nil {
					return mf
				}
			}
		}
		return nil
	}
	return fn.Origin()
}

// FuncKey renders "pkg.Func" or "pkg.(Type).Method" for resolved functions.
func FuncKey(fn *types.Func) string {
	if fn == nil {
		return ""
	}
	sig, _ := fn.Type().(*types.Signature)
	pkg := ""
	if fn.Pkg() != nil {
		pkg = fn.Pkg().Path()
	}
	if sig != nil && sig.Recv() != nil {
		if n := load.NamedOf(sig.Recv().Type()); n != nil {
			return pkg + ".(" + n.Obj().Name() + ")." + fn.Name()
		}
		// interface method
		return pkg + ".(iface)." + fn.Name()
	}
	return pkg + "." + fn.Name()
}

// IsPkgFunc reports whether fn is the package-level function pkgPath.name.
func IsPkgFunc(fn *types.Func, pkgPath, name string) bool {
	if fn == nil || fn.Pkg() == nil || fn.Name() != name || fn.Pkg().Path() != pkgPath {
		return false
	}
	sig, _ := fn.Type().(*types.Signature)
	return sig != nil && sig.Recv() == nil
}

// IsMethod reports whether fn is method `name` of named type pkgPath.typeName
// (pointer or value receiver).
func IsMethod(fn *types.Func, pkgPath, typeName, name string) bool {
	if fn == nil || fn.Name() != name {
		return false
	}
	sig, _ := fn.Type().(*types.Signature)
	if sig == nil || sig.Recv() == nil {
		return false
	}
	n := load.NamedOf(sig.Recv().Type())
	return n != nil && n.Obj().Name() == typeName && n.Obj().Pkg() != nil && n.Obj().Pkg().Path() == pkgPath
}

// ShortPkg returns the last elements of a samber/ro package path for display.
func ShortPkg(path string) string {
	if path == load.RoPath {
		return "ro"
	}
	return strings.TrimPrefix(path, load.RoPath+"/")
}

var _ = token.NoPos

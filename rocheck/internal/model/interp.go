package model

import (
	"fmt"
	"go/ast"
	"go/token"
	"go/types"
	"strings"

	"golang.org/x/tools/go/packages"
)

// ---------------------------------------------------------------------------
// abstract values

type AVKind int

const (
	AVUnknown   AVKind = iota
	AVDest             // the SC's destination subscriber
	AVFunc             // a closure (literal + env) or a declared function
	AVMethodVal        // x.M as a value
	AVObserver         // NewObserverWithContext(f1, f2, f3) & friends
	AVParam            // a parameter of an enclosing API function (user-supplied)
	AVSub              // the subscription returned by a subscribe site
	AVNil
	AVCtx0      // the SC's subscriber context
	AVComposite // a subscription created by NewSubscription(...)
)

// AV is an abstract value for function-, observer- and subscription-typed expressions.
type AV struct {
	Kind   AVKind
	Lit    *ast.FuncLit
	Decl   *DeclInfo
	Env    *Env
	Recv   *AV
	Method *types.Func // origin
	Slots  [3]*AV
	OCtor  *ObserverCtor
	Param  *types.Var
	Site   *SubSite
	Expr   ast.Expr
}

func (a *AV) id() string {
	if a == nil {
		return "?"
	}
	switch a.Kind {
	case AVDest:
		return "dest"
	case AVCtx0:
		return "ctx0"
	case AVFunc:
		if a.Lit != nil {
			return fmt.Sprintf("lit@%d/%p", a.Lit.Pos(), a.Env)
		}
		return "decl:" + a.Decl.Fn.Name()
	case AVMethodVal:
		return "mv(" + a.Recv.id() + "." + a.Method.Name() + ")"
	case AVObserver:
		return fmt.Sprintf("obs(%s,%s,%s)", a.Slots[0].id(), a.Slots[1].id(), a.Slots[2].id())
	case AVParam:
		return "param:" + a.Param.Name()
	case AVSub:
		return fmt.Sprintf("sub#%d", a.Site.ID)
	case AVNil:
		return "nil"
	case AVComposite:
		return fmt.Sprintf("comp@%d", a.Expr.Pos())
	}
	return "?"
}

// Env is a lexical frame.
type Env struct {
	Parent   *Env
	Fn       ast.Node // *ast.FuncLit or *ast.FuncDecl
	Pkg      *packages.Package
	vars     map[types.Object]*AV
	callVals map[*ast.CallExpr]*AV
}

func newEnv(parent *Env, fn ast.Node, pkg *packages.Package) *Env {
	return &Env{Parent: parent, Fn: fn, Pkg: pkg, vars: map[types.Object]*AV{}, callVals: map[*ast.CallExpr]*AV{}}
}

func (e *Env) lookup(o types.Object) *AV {
	for c := e; c != nil; c = c.Parent {
		if v, ok := c.vars[o]; ok {
			return v
		}
	}
	return nil
}

// declaring returns the innermost frame whose function contains pos.
func (e *Env) declaring(pos token.Pos) *Env {
	for c := e; c != nil; c = c.Parent {
		if c.Fn != nil && c.Fn.Pos() <= pos && pos < c.Fn.End() {
			return c
		}
	}
	return nil
}

// ---------------------------------------------------------------------------
// contexts and records

type CtxKind int

const (
	KBody CtxKind = iota
	KSrc
	KGo
	KTimer
	KTeardown
)

func (k CtxKind) String() string {
	return [...]string{"body", "src", "go", "timer", "teardown"}[k]
}

// Ctx is an emission context: a place where code of an SC runs.
type Ctx struct {
	ID         int
	Kind       CtxKind
	Parent     *Ctx
	ParentSlot int       // slot of the parent (when parent is KSrc) in which this context is created, else -1
	Site       *SubSite  // KSrc
	Node       ast.Node  // creating construct
	BasePos    token.Pos // position of the creation in the parent's entry function
	InLoop     bool      // created inside a loop of the parent context
	Awaited    bool      // KSrc: the subscription is Wait()ed in the parent context after creation
	Recovered  bool      // KGo: started through recoverUnhandledError / deferred recover / lo.TryCatch*
	CatchEmits bool      // KGo: started as `go lo.TryCatch*(f, handler)` whose handler sends an Error notification to the destination
	Via        []string  // inlining path
	// KTeardown: who runs this teardown. Root: returned by the subscribe closure itself.
	// Otherwise OwnerAV/OwnerExpr is the subscription it was Add()ed to, or OwnerLit is the
	// literal returned by an inlined helper (matched with the Add that receives it).
	Root      bool
	OwnerAV   *AV
	OwnerExpr ast.Expr
	OwnerLit  *ast.FuncLit
}

func (c *Ctx) String() string {
	if c == nil {
		return "-"
	}
	s := c.Kind.String()
	if c.Kind != KBody {
		s = fmt.Sprintf("%s#%d", s, c.ID)
	}
	if c.Parent != nil && c.Parent.Kind != KBody {
		return c.Parent.String() + "/" + s
	}
	return s
}

// Rec is the common part of all records.
type Rec struct {
	SC      *SC
	Pkg     *packages.Package
	Ctx     *Ctx
	Slot    int // slot of Ctx when Ctx is KSrc, else -1
	Pos     token.Pos
	BasePos token.Pos // position in the entry function of Ctx (call position when inlined)
	InLoop  bool      // inside a loop within Ctx
	Env     *Env
	Depth   int
	Stack   []*ast.CallExpr // inlining call stack (call sites of closures/helpers leading here)
	InDefer bool            // the construct is (inside) a deferred call of its function
}

// SubSite is a call of Observable.Subscribe[WithContext] / Connect[WithContext].
type SubSite struct {
	Rec
	ID         int
	Call       *ast.CallExpr
	Method     string
	CtxArg     ast.Expr
	SourceExpr ast.Expr
	Source     *AV
	ObsExpr    ast.Expr
	Observer   *AV
	PassThru   bool
	Src        *Ctx
	Key        string
}

const (
	EmitNext = iota
	EmitError
	EmitComplete
)

// EmitSite is a notification sent to an observer: a call x.Next*/Error*/Complete* or a
// method value of those used as a callback.
type EmitSite struct {
	Rec
	Node      ast.Node
	Kind      int
	WithCtx   bool
	ToDest    bool
	Recv      *AV
	RecvExpr  ast.Expr
	CtxArg    ast.Expr // nil for forwarders and context-less variants
	Args      []ast.Expr
	Forwarder bool // method value used as the callback: passes ctx and value through unchanged
	Deferred  bool
	Key       string
}

// UserCall is a call of a user-supplied function.
type UserCall struct {
	Rec
	Call  *ast.CallExpr
	Param *types.Var
	Key   string
}

// GoSite is a go statement.
type GoSite struct {
	Rec
	Stmt      *ast.GoStmt
	Body      *Ctx
	Recovered bool
}

// TimerSite is a time.AfterFunc / NewTimer / NewTicker call.
type TimerSite struct {
	Rec
	Call *ast.CallExpr
	Fn   string
	Body *Ctx // AfterFunc callback context
}

// BlockSite is a potentially blocking operation.
type BlockSite struct {
	Rec
	Node    ast.Node
	What    string // wait, sleep, recv, send, select, range-chan
	Recv    *AV    // for wait
	Expr    ast.Expr
	Chans   []ast.Expr // select: channel expressions of the communication clauses
	Forever bool       // loop without condition
}

// FnPlace records one walk of a function node (literal or helper declaration): the
// context in which its body runs.
type FnPlace struct {
	Ctx     *Ctx
	Slot    int
	Inlined bool      // called from another function of the same context (BasePos is the call position)
	BasePos token.Pos // valid when Inlined
	InLoop  bool
}

// Store is an assignment of a subscription value into a variable, element or field.
type Store struct {
	Rec
	Node ast.Node
	LHS  ast.Expr
	Val  *AV
}

// SubOp is a call of a Subscription method (Add, AddUnsubscribable, Unsubscribe, Wait, IsClosed)
// or of close(ch) / timer.Stop.
type SubOp struct {
	Rec
	Call     *ast.CallExpr
	Method   string
	RecvExpr ast.Expr
	Recv     *AV
	ArgExpr  ast.Expr
	Arg      *AV
}

// TeardownRet is a value returned as Teardown.
type TeardownRet struct {
	Rec
	Expr ast.Expr
	Val  *AV
	Body *Ctx
}

// ---------------------------------------------------------------------------
// walker

type frame struct {
	env     *Env
	ctx     *Ctx
	slot    int
	basePos token.Pos
	inlined bool
	loop    int
	depth   int
	via     []string
	fnNode  ast.Node // function being walked (for return handling)
	stack   []*ast.CallExpr
	inDefer bool
}

type walker struct {
	m      *Model
	sc     *SC
	memo   map[string]bool
	walked map[*ast.FuncLit]bool
	nctx   int
	nsite  int
}

const maxDepth = 6

func (m *Model) walkSC(sc *SC) {
	w := &walker{m: m, sc: sc, memo: map[string]bool{}, walked: map[*ast.FuncLit]bool{}}
	root := newEnv(nil, sc.Lit, sc.Pkg)
	// outer frames for enclosing functions so that `declaring` works for L0/L1 variables
	var outer *Env
	for _, c := range sc.Chain {
		if c == sc.Lit {
			break
		}
		outer = newEnv(outer, c, sc.Pkg)
	}
	root.Parent = outer
	if sc.Dest != nil {
		root.vars[sc.Dest] = &AV{Kind: AVDest}
	}
	if sc.Ctx0 != nil {
		root.vars[sc.Ctx0] = &AV{Kind: AVCtx0}
	}
	sc.FnPlaces = map[ast.Node][]FnPlace{}
	sc.Body = w.newCtx(KBody, nil, -1, sc.Lit, sc.Lit.Pos(), false, nil)
	sc.FnPlaces[sc.Lit] = []FnPlace{{Ctx: sc.Body, Slot: -1}}
	w.walked[sc.Lit] = true
	fr := frame{env: root, ctx: sc.Body, slot: -1, fnNode: sc.Lit}
	w.node(sc.Lit.Body, fr)
	// literals never reached: walk them in the body context and report
	ast.Inspect(sc.Lit.Body, func(n ast.Node) bool {
		if lit, ok := n.(*ast.FuncLit); ok && !w.walked[lit] {
			if w.isNestedSC(lit) {
				return false
			}
			sc.Unknown = append(sc.Unknown, fmt.Sprintf("unreached literal at %s", m.Prog.Rel(lit.Pos())))
			w.walked[lit] = true
			w.node(lit.Body, frame{env: newEnv(root, lit, sc.Pkg), ctx: sc.Body, slot: -1, fnNode: lit, basePos: lit.Pos(), inlined: true})
		}
		return true
	})
	w.finish()
}

func (w *walker) isNestedSC(lit *ast.FuncLit) bool {
	for _, o := range w.m.SCs {
		if o.Lit == lit && o != w.sc {
			return true
		}
	}
	return false
}

func (w *walker) newCtx(kind CtxKind, parent *Ctx, parentSlot int, node ast.Node, basePos token.Pos, inLoop bool, via []string) *Ctx {
	c := &Ctx{ID: w.nctx, Kind: kind, Parent: parent, ParentSlot: parentSlot, Node: node, BasePos: basePos, InLoop: inLoop, Via: via}
	w.nctx++
	w.sc.Ctxs = append(w.sc.Ctxs, c)
	return c
}

func (w *walker) rec(n ast.Node, fr frame) Rec {
	bp := fr.basePos
	if !fr.inlined {
		bp = n.Pos()
	}
	return Rec{SC: w.sc, Pkg: fr.env.Pkg, Ctx: fr.ctx, Slot: fr.slot, Pos: n.Pos(), BasePos: bp, InLoop: fr.loop > 0, Env: fr.env, Depth: fr.depth, Stack: fr.stack, InDefer: fr.inDefer}
}

func children(n ast.Node, f func(ast.Node)) {
	first := true
	ast.Inspect(n, func(c ast.Node) bool {
		if first {
			first = false
			return true
		}
		if c != nil {
			f(c)
		}
		return false
	})
}

func (w *walker) node(n ast.Node, fr frame) {
	if n == nil {
		return
	}
	info := fr.env.Pkg.TypesInfo
	switch x := n.(type) {
	case *ast.FuncLit:
		// a literal in a position no rule consumed: treat as synchronously callable in this context
		if w.isNestedSC(x) {
			return
		}
		if !w.walked[x] {
			w.sc.Unknown = append(w.sc.Unknown, fmt.Sprintf("literal in unrecognised position at %s", w.m.Prog.Rel(x.Pos())))
			w.enterLit(&AV{Kind: AVFunc, Lit: x, Env: fr.env}, nil, x, fr)
		}
	case *ast.ForStmt:
		w.node(x.Init, fr)
		if x.Cond == nil {
			w.sc.Blocks = append(w.sc.Blocks, &BlockSite{Rec: w.rec(x, fr), Node: x, What: "loop", Forever: true})
		}
		f2 := fr
		f2.loop++
		w.node(x.Cond, f2)
		w.node(x.Body, f2)
		w.node(x.Post, f2)
	case *ast.RangeStmt:
		w.node(x.X, fr)
		if t := info.TypeOf(x.X); t != nil {
			if _, ok := t.Underlying().(*types.Chan); ok {
				r := w.rec(x, fr)
				w.sc.Blocks = append(w.sc.Blocks, &BlockSite{Rec: r, Node: x, What: "range-chan", Expr: x.X})
			}
		}
		f2 := fr
		f2.loop++
		w.node(x.Body, f2)
	case *ast.GoStmt:
		w.goStmt(x, fr)
	case *ast.DeferStmt:
		f2 := fr
		f2.inDefer = true
		w.call(x.Call, f2, true)
	case *ast.ReturnStmt:
		w.ret(x, fr)
	case *ast.CallExpr:
		w.call(x, fr, false)
	case *ast.SelectStmt:
		hasDefault := false
		for _, c := range x.Body.List {
			if cc, ok := c.(*ast.CommClause); ok && cc.Comm == nil {
				hasDefault = true
			}
		}
		if !hasDefault {
			bs := &BlockSite{Rec: w.rec(x, fr), Node: x, What: "select"}
			for _, c := range x.Body.List {
				if cc, ok := c.(*ast.CommClause); ok && cc.Comm != nil {
					if ch := commChan(cc.Comm); ch != nil {
						bs.Chans = append(bs.Chans, ch)
					}
				}
			}
			w.sc.Blocks = append(w.sc.Blocks, bs)
		}
		f2 := fr
		for _, c := range x.Body.List {
			cc := c.(*ast.CommClause)
			// the comm statements of a select are not separate blocking sites
			if cc.Comm != nil {
				w.commStmt(cc.Comm, f2)
			}
			for _, s := range cc.Body {
				w.node(s, f2)
			}
		}
	case *ast.SendStmt:
		w.sc.Blocks = append(w.sc.Blocks, &BlockSite{Rec: w.rec(x, fr), Node: x, What: "send", Expr: x.Chan})
		w.node(x.Chan, fr)
		w.node(x.Value, fr)
	case *ast.UnaryExpr:
		if x.Op == token.ARROW {
			w.sc.Blocks = append(w.sc.Blocks, &BlockSite{Rec: w.rec(x, fr), Node: x, What: "recv", Expr: x.X})
		}
		w.node(x.X, fr)
	case *ast.AssignStmt:
		for _, l := range x.Lhs {
			if _, ok := l.(*ast.Ident); !ok {
				w.node(l, fr)
			}
		}
		for _, r := range x.Rhs {
			if _, ok := ast.Unparen(r).(*ast.FuncLit); ok {
				continue // bound lazily, walked where it is used
			}
			w.node(r, fr)
		}
		if len(x.Lhs) == len(x.Rhs) {
			for i, r := range x.Rhs {
				if v := w.eval(r, fr); v.Kind == AVSub || v.Kind == AVComposite {
					w.sc.Stores = append(w.sc.Stores, &Store{Rec: w.rec(x, fr), Node: x, LHS: x.Lhs[i], Val: v})
				}
			}
		}
	case *ast.ValueSpec:
		for _, r := range x.Values {
			if _, ok := ast.Unparen(r).(*ast.FuncLit); ok {
				continue
			}
			w.node(r, fr)
		}
	default:
		children(n, func(c ast.Node) { w.node(c, fr) })
	}
}

// commChan returns the channel expression of a select communication clause.
func commChan(s ast.Stmt) ast.Expr {
	switch x := s.(type) {
	case *ast.SendStmt:
		return x.Chan
	case *ast.ExprStmt:
		if u, ok := ast.Unparen(x.X).(*ast.UnaryExpr); ok && u.Op == token.ARROW {
			return u.X
		}
	case *ast.AssignStmt:
		if len(x.Rhs) == 1 {
			if u, ok := ast.Unparen(x.Rhs[0]).(*ast.UnaryExpr); ok && u.Op == token.ARROW {
				return u.X
			}
		}
	}
	return nil
}

func (w *walker) commStmt(s ast.Stmt, fr frame) {
	// walk sub-expressions without recording recv/send block sites
	switch x := s.(type) {
	case *ast.SendStmt:
		w.node(x.Chan, fr)
		w.node(x.Value, fr)
	case *ast.ExprStmt:
		if u, ok := ast.Unparen(x.X).(*ast.UnaryExpr); ok && u.Op == token.ARROW {
			w.node(u.X, fr)
			return
		}
		w.node(x.X, fr)
	case *ast.AssignStmt:
		for _, r := range x.Rhs {
			if u, ok := ast.Unparen(r).(*ast.UnaryExpr); ok && u.Op == token.ARROW {
				w.node(u.X, fr)
				continue
			}
			w.node(r, fr)
		}
	}
}

func (w *walker) ret(x *ast.ReturnStmt, fr frame) {
	// is the function being walked one that returns a Teardown?
	var sig *types.Signature
	info := fr.env.Pkg.TypesInfo
	switch f := fr.fnNode.(type) {
	case *ast.FuncLit:
		sig, _ = info.TypeOf(f).(*types.Signature)
	case *ast.FuncDecl:
		if o, _ := info.Defs[f.Name].(*types.Func); o != nil {
			sig, _ = o.Type().(*types.Signature)
		}
	}
	isTeardown := sig != nil && sig.Results().Len() == 1 && IsNamed(sig.Results().At(0).Type(), w.m.Obj.Teardown)
	if !isTeardown || len(x.Results) != 1 {
		for _, r := range x.Results {
			w.node(r, fr)
		}
		return
	}
	e := x.Results[0]
	if _, isLit := ast.Unparen(e).(*ast.FuncLit); !isLit {
		w.node(e, fr)
	}
	av := w.eval(e, fr)
	tr := &TeardownRet{Rec: w.rec(x, fr), Expr: e, Val: av}
	if av.Kind == AVFunc {
		tr.Body = w.newCtx(KTeardown, fr.ctx, fr.slot, x, tr.BasePos, fr.loop > 0, fr.via)
		if fr.fnNode == ast.Node(w.sc.Lit) {
			tr.Body.Root = true
		} else {
			tr.Body.OwnerLit = av.Lit
		}
		w.enterFunc(av, nil, x, frame{ctx: tr.Body, slot: -1, depth: fr.depth, via: fr.via, stack: fr.stack})
	}
	w.sc.Teardowns = append(w.sc.Teardowns, tr)
}

func (w *walker) goStmt(x *ast.GoStmt, fr frame) {
	info := fr.env.Pkg.TypesInfo
	gs := &GoSite{Rec: w.rec(x, fr), Stmt: x}
	body := w.newCtx(KGo, fr.ctx, fr.slot, x, gs.BasePos, fr.loop > 0, fr.via)
	gs.Body = body
	call := x.Call
	callee := Callee(info, call)
	var fn *AV
	var args []ast.Expr
	var handler *AV
	if callee != nil && callee == w.m.Obj.RecoverUnhandled && len(call.Args) == 1 {
		gs.Recovered = true
		fn = w.eval(call.Args[0], fr)
	} else if callee != nil && callee.Pkg() != nil && callee.Pkg().Path() == "github.com/samber/lo" && strings.HasPrefix(callee.Name(), "TryCatch") && len(call.Args) == 2 {
		gs.Recovered = true
		fn = w.eval(call.Args[0], fr)
		handler = w.eval(call.Args[1], fr)
	} else {
		fn = w.eval(call.Fun, fr)
		args = call.Args
		for _, a := range call.Args {
			if _, ok := ast.Unparen(a).(*ast.FuncLit); !ok {
				w.node(a, fr)
			}
		}
	}
	body.Recovered = gs.Recovered
	w.sc.Gos = append(w.sc.Gos, gs)
	if fn.Kind == AVFunc {
		if fn.Lit != nil && hasDeferredRecover(fn.Lit.Body) {
			gs.Recovered, body.Recovered = true, true
		}
		var avs []*AV
		for _, a := range args {
			avs = append(avs, w.eval(a, fr))
		}
		w.enterFunc(fn, avs, x, frame{ctx: body, slot: -1, depth: fr.depth, via: fr.via, stack: fr.stack})
		if handler != nil && handler.Kind == AVFunc && handler.Lit != nil {
			before := len(w.sc.Emits)
			w.enterFunc(handler, nil, x, frame{ctx: body, slot: -1, depth: fr.depth, via: fr.via, stack: fr.stack})
			for _, e := range w.sc.Emits[before:] {
				if e.ToDest && e.Kind == EmitError {
					body.CatchEmits = true
				}
			}
		}
	} else {
		w.sc.Unknown = append(w.sc.Unknown, fmt.Sprintf("go statement with unresolved function at %s", w.m.Prog.Rel(x.Pos())))
	}
}

func hasDeferredRecover(body *ast.BlockStmt) bool {
	found := false
	for _, s := range body.List {
		d, ok := s.(*ast.DeferStmt)
		if !ok {
			continue
		}
		ast.Inspect(d.Call, func(n ast.Node) bool {
			if c, ok := n.(*ast.CallExpr); ok {
				if id, ok := c.Fun.(*ast.Ident); ok && id.Name == "recover" {
					found = true
				}
			}
			return true
		})
	}
	return found
}

// enterFunc walks the body of a function value as the entry function of ctx in fr
// (fr.ctx/slot/depth/via are used; env, basePos are set here).
func (w *walker) enterFunc(fn *AV, args []*AV, at ast.Node, fr frame) {
	if fn == nil || fn.Kind != AVFunc {
		return
	}
	fr.inlined = false
	fr.basePos = token.NoPos
	fr.loop = 0
	w.bindAndWalk(fn, args, at, fr)
}

// enterLit inlines a call of fn at `at` in the current context.
func (w *walker) enterLit(fn *AV, args []*AV, at ast.Node, fr frame) {
	if fn == nil || fn.Kind != AVFunc {
		return
	}
	if !fr.inlined {
		fr.basePos = at.Pos()
		fr.inlined = true
	}
	w.bindAndWalk(fn, args, at, fr)
}

func (w *walker) bindAndWalk(fn *AV, args []*AV, at ast.Node, fr frame) {
	if fr.depth >= maxDepth {
		w.sc.Unknown = append(w.sc.Unknown, fmt.Sprintf("inlining depth exceeded at %s", w.m.Prog.Rel(at.Pos())))
		return
	}
	var body *ast.BlockStmt
	var ft *ast.FuncType
	var env *Env
	var node ast.Node
	name := ""
	if fn.Lit != nil {
		body, ft, node = fn.Lit.Body, fn.Lit.Type, fn.Lit
		env = newEnv(fn.Env, fn.Lit, fn.Env.Pkg)
		w.walked[fn.Lit] = true
		name = fmt.Sprintf("lit@%s", w.m.Prog.Rel(fn.Lit.Pos()))
	} else if fn.Decl != nil && fn.Decl.Decl.Body != nil {
		body, ft, node = fn.Decl.Decl.Body, fn.Decl.Decl.Type, fn.Decl.Decl
		env = newEnv(nil, fn.Decl.Decl, fn.Decl.Pkg)
		name = fn.Decl.Fn.Name()
		found := false
		for _, d := range w.sc.Inlined {
			if d == fn.Decl.Decl {
				found = true
			}
		}
		if !found {
			w.sc.Inlined = append(w.sc.Inlined, fn.Decl.Decl)
		}
	} else {
		return
	}
	var sb strings.Builder
	fmt.Fprintf(&sb, "%p|%d|%d|%p", node, fr.ctx.ID, fr.slot, fn.Env)
	params := flattenParams(env.Pkg.TypesInfo, ft.Params)
	for i, p := range params {
		if p == nil {
			continue
		}
		if i < len(args) && args[i] != nil && args[i].Kind != AVUnknown {
			env.vars[p] = args[i]
			sb.WriteString("|" + args[i].id())
		} else {
			sb.WriteString("|_")
		}
	}
	key := sb.String()
	if w.memo[key] {
		return
	}
	w.memo[key] = true
	w.sc.Frames++
	w.sc.FnPlaces[node] = append(w.sc.FnPlaces[node], FnPlace{Ctx: fr.ctx, Slot: fr.slot, Inlined: fr.inlined, BasePos: fr.basePos, InLoop: fr.loop > 0})
	fr.env = env
	fr.depth++
	fr.fnNode = node
	if c, ok := at.(*ast.CallExpr); ok {
		fr.stack = append(append([]*ast.CallExpr{}, fr.stack...), c)
	}
	// `go helper(args)` / `defer helper(args)`: the call that binds the helper's parameters
	if fn.Decl != nil {
		switch g := at.(type) {
		case *ast.GoStmt:
			fr.stack = append(append([]*ast.CallExpr{}, fr.stack...), g.Call)
		case *ast.DeferStmt:
			fr.stack = append(append([]*ast.CallExpr{}, fr.stack...), g.Call)
		}
	}
	if fn.Decl != nil {
		fr.via = append(append([]string{}, fr.via...), name)
	}
	w.node(body, fr)
}

func (w *walker) call(call *ast.CallExpr, fr frame, deferred bool) {
	info := fr.env.Pkg.TypesInfo
	m := w.m
	// conversions and builtins
	if tv, ok := info.Types[call.Fun]; ok && tv.IsType() {
		for _, a := range call.Args {
			w.node(a, fr)
		}
		return
	}
	callee := Callee(info, call)

	// walk the callee expression when it is itself a call (curried forms) or a selector on a call
	switch f := ast.Unparen(call.Fun).(type) {
	case *ast.SelectorExpr:
		w.node(f.X, fr)
	case *ast.CallExpr:
		w.node(f, fr)
	case *ast.IndexExpr:
		if c, ok := f.X.(*ast.CallExpr); ok {
			w.node(c, fr)
		}
	case *ast.FuncLit:
		// immediately invoked literal
		var avs []*AV
		for _, a := range call.Args {
			w.node(a, fr)
			avs = append(avs, w.eval(a, fr))
		}
		w.enterLit(&AV{Kind: AVFunc, Lit: f, Env: fr.env}, avs, call, fr)
		return
	}

	walkArgs := func(skipLits bool) {
		for _, a := range call.Args {
			if _, ok := ast.Unparen(a).(*ast.FuncLit); ok && skipLits {
				continue
			}
			w.node(a, fr)
		}
	}

	// builtin close()
	if id, ok := ast.Unparen(call.Fun).(*ast.Ident); ok {
		if b, ok := info.Uses[id].(*types.Builtin); ok {
			walkArgs(false)
			if b.Name() == "close" && len(call.Args) == 1 {
				w.sc.SubOps = append(w.sc.SubOps, &SubOp{Rec: w.rec(call, fr), Call: call, Method: "close", RecvExpr: call.Args[0]})
			}
			return
		}
	}

	if callee != nil {
		// observable constructors: nested SCs are analysed on their own
		if m.Obj.Ctors[callee] != nil {
			for _, a := range call.Args {
				if lit, ok := ast.Unparen(a).(*ast.FuncLit); ok && w.isNestedSC(lit) {
					continue
				}
				w.node(a, fr)
			}
			return
		}
		if name, ok := m.Obj.ObservableMethods[callee]; ok {
			walkArgs(true)
			w.subscribe(call, name, fr)
			return
		}
		if name, ok := m.Obj.ConnectableMethods[callee]; ok && strings.HasPrefix(name, "Connect") {
			walkArgs(true)
			w.subscribe(call, name, fr)
			return
		}
		if name, ok := m.Obj.ObserverMethods[callee]; ok {
			walkArgs(false)
			w.observerCall(call, name, callee, fr, deferred)
			return
		}
		if name, ok := m.Obj.SubscriptionMethods[callee]; ok {
			w.subscriptionCall(call, name, fr)
			return
		}
		if _, ok := m.Obj.ObserverCtors[callee]; ok {
			// observer construction outside a subscribe site: evaluated lazily by eval
			for _, a := range call.Args {
				if _, ok := ast.Unparen(a).(*ast.FuncLit); ok {
					continue
				}
				if c, ok := ast.Unparen(a).(*ast.CallExpr); ok && w.eval(c, fr).Kind == AVFunc {
					continue // closure-returning helper: entered as the slot's body
				}
				w.node(a, fr)
			}
			return
		}
		if _, ok := m.Obj.SubscriberCtors[callee]; ok {
			walkArgs(true)
			return
		}
		switch {
		case callee == m.Obj.RecoverUnhandled && len(call.Args) == 1:
			w.enterLit(w.eval(call.Args[0], fr), nil, call, fr)
			return
		case IsPkgFunc(callee, "time", "AfterFunc") && len(call.Args) == 2:
			w.node(call.Args[0], fr)
			ts := &TimerSite{Rec: w.rec(call, fr), Call: call, Fn: "AfterFunc"}
			ts.Body = w.newCtx(KTimer, fr.ctx, fr.slot, call, ts.BasePos, fr.loop > 0, fr.via)
			w.sc.Timers = append(w.sc.Timers, ts)
			fn := w.eval(call.Args[1], fr)
			if fn.Kind == AVFunc {
				w.enterFunc(fn, nil, call, frame{ctx: ts.Body, slot: -1, depth: fr.depth, via: fr.via, stack: fr.stack})
			} else {
				w.sc.Unknown = append(w.sc.Unknown, fmt.Sprintf("time.AfterFunc with unresolved callback at %s", m.Prog.Rel(call.Pos())))
			}
			fr.env.callVals[call] = &AV{Kind: AVUnknown, Expr: call}
			return
		case IsPkgFunc(callee, "time", "NewTimer") || IsPkgFunc(callee, "time", "NewTicker"):
			walkArgs(false)
			w.sc.Timers = append(w.sc.Timers, &TimerSite{Rec: w.rec(call, fr), Call: call, Fn: callee.Name()})
			return
		case IsPkgFunc(callee, "time", "Sleep"):
			walkArgs(false)
			w.sc.Blocks = append(w.sc.Blocks, &BlockSite{Rec: w.rec(call, fr), Node: call, What: "sleep"})
			return
		case IsMethod(callee, "time", "Timer", "Stop") || IsMethod(callee, "time", "Ticker", "Stop"):
			if sel, ok := ast.Unparen(call.Fun).(*ast.SelectorExpr); ok {
				w.sc.SubOps = append(w.sc.SubOps, &SubOp{Rec: w.rec(call, fr), Call: call, Method: "Stop", RecvExpr: sel.X})
			}
			return
		case IsMethod(callee, "sync", "Once", "Do") && len(call.Args) == 1,
			IsMethod(callee, "sync", "Map", "Range") && len(call.Args) == 1:
			w.enterLit(w.eval(call.Args[0], fr), nil, call, fr)
			return
		case callee.Pkg() != nil && callee.Pkg().Path() == "github.com/samber/lo" && strings.HasPrefix(callee.Name(), "TryCatch"):
			for _, a := range call.Args {
				w.enterLit(w.eval(a, fr), nil, call, fr)
			}
			return
		}
	}

	// a method of another interface (e.g. zipDestination) invoked on the destination
	if sel, ok := ast.Unparen(call.Fun).(*ast.SelectorExpr); ok {
		if _, isSel := info.Selections[sel]; isSel {
			if _, _, isEmit := emitKind(sel.Sel.Name); isEmit {
				if recv := w.eval(sel.X, fr); recv.Kind == AVDest {
					walkArgs(false)
					w.observerCall(call, sel.Sel.Name, callee, fr, deferred)
					return
				}
			}
		}
	}

	// calls through function values
	fv := w.eval(call.Fun, fr)
	switch fv.Kind {
	case AVFunc:
		if fv.Lit != nil || w.shouldInline(fv, call, fr) {
			walkArgs(true)
			var avs []*AV
			for _, a := range call.Args {
				avs = append(avs, w.eval(a, fr))
			}
			w.enterLit(fv, avs, call, fr)
			return
		}
	case AVMethodVal:
		walkArgs(false)
		if name, ok := m.Obj.ObserverMethods[fv.Method]; ok {
			w.emitVia(call, name, fv, fr, deferred)
			return
		}
		if name, ok := m.Obj.SubscriptionMethods[fv.Method]; ok {
			w.sc.SubOps = append(w.sc.SubOps, &SubOp{Rec: w.rec(call, fr), Call: call, Method: name, Recv: fv.Recv, RecvExpr: fv.Expr})
			return
		}
		return
	case AVParam:
		// a function value received as a parameter (a user callback, or a library function handed to a shared helper:
		// sortWith(cmp, sort.SliceStable)): its literal arguments run synchronously in this context, like those of an
		// external function called directly
		for _, a := range call.Args {
			if lit, ok := ast.Unparen(a).(*ast.FuncLit); ok {
				if !w.isNestedSC(lit) {
					w.enterLit(&AV{Kind: AVFunc, Lit: lit, Env: fr.env}, nil, call, fr)
				}
				continue
			}
			w.node(a, fr)
		}
		if w.sc.UserParams[fv.Param] {
			if _, ok := fv.Param.Type().Underlying().(*types.Signature); ok {
				w.sc.UserCalls = append(w.sc.UserCalls, &UserCall{Rec: w.rec(call, fr), Call: call, Param: fv.Param})
			}
		}
		return
	}
	// unknown callee: literal arguments run synchronously in this context (best effort, reported)
	for _, a := range call.Args {
		if lit, ok := ast.Unparen(a).(*ast.FuncLit); ok {
			if w.isNestedSC(lit) {
				continue
			}
			w.enterLit(&AV{Kind: AVFunc, Lit: lit, Env: fr.env}, nil, call, fr)
			continue
		}
		w.node(a, fr)
	}
}

// shouldInline decides whether a call of a declared samber/ro function is inlined: only
// helpers that receive the destination, a closure, an observer or a method value of those.
func (w *walker) shouldInline(fv *AV, call *ast.CallExpr, fr frame) bool {
	if fv.Decl == nil || fv.Decl.Decl.Body == nil {
		return false
	}
	sig := fv.Decl.Fn.Type().(*types.Signature)
	// operators (returning Observable or func(Observable) Observable) are compositions, not helpers
	if sig.Results().Len() == 1 {
		rt := sig.Results().At(0).Type()
		if IsNamed(rt, w.m.Obj.Observable) || IsNamed(rt, w.m.Obj.Connectable) {
			return false
		}
		if s2, ok := rt.Underlying().(*types.Signature); ok && s2.Results().Len() == 1 && IsNamed(s2.Results().At(0).Type(), w.m.Obj.Observable) {
			return false
		}
	}
	for _, a := range call.Args {
		switch w.eval(a, fr).Kind {
		case AVDest, AVObserver, AVMethodVal:
			return true
		case AVFunc:
			return true
		}
	}
	return false
}

func (w *walker) subscribe(call *ast.CallExpr, method string, fr frame) {
	sel, _ := ast.Unparen(call.Fun).(*ast.SelectorExpr)
	site := &SubSite{Rec: w.rec(call, fr), ID: w.nsite, Call: call, Method: method}
	w.nsite++
	if sel != nil {
		site.SourceExpr = sel.X
		site.Source = w.eval(sel.X, fr)
	}
	var obsExpr ast.Expr
	switch method {
	case "SubscribeWithContext":
		if len(call.Args) == 2 {
			site.CtxArg, obsExpr = call.Args[0], call.Args[1]
		}
	case "Subscribe":
		if len(call.Args) == 1 {
			obsExpr = call.Args[0]
		}
	case "ConnectWithContext":
		if len(call.Args) == 1 {
			site.CtxArg = call.Args[0]
		}
	}
	site.ObsExpr = obsExpr
	site.Src = w.newCtx(KSrc, fr.ctx, fr.slot, call, site.BasePos, fr.loop > 0, fr.via)
	site.Src.Site = site
	w.sc.SubSites = append(w.sc.SubSites, site)
	fr.env.callVals[call] = &AV{Kind: AVSub, Site: site, Expr: call}
	if obsExpr == nil {
		return
	}
	obs := w.eval(obsExpr, fr)
	site.Observer = obs
	switch obs.Kind {
	case AVDest:
		site.PassThru = true
		for k, name := range []string{"NextWithContext", "ErrorWithContext", "CompleteWithContext"} {
			r := w.rec(call, fr)
			r.Ctx, r.Slot = site.Src, k
			w.sc.Emits = append(w.sc.Emits, &EmitSite{Rec: r, Node: call, Kind: k, WithCtx: true, ToDest: true, Recv: obs, RecvExpr: obsExpr, Forwarder: true})
			_ = name
		}
	case AVObserver:
		for k := 0; k < 3; k++ {
			w.enterSlot(site, k, obs.Slots[k], fr)
		}
	default:
		// another observer (a subject, a field): its emissions do not reach dest through this SC
	}
}

func (w *walker) enterSlot(site *SubSite, k int, s *AV, fr frame) {
	if s == nil {
		return
	}
	m := w.m
	switch s.Kind {
	case AVFunc:
		w.enterFunc(s, nil, site.Call, frame{ctx: site.Src, slot: k, depth: fr.depth, via: fr.via, stack: fr.stack})
	case AVMethodVal:
		if name, ok := m.Obj.ObserverMethods[s.Method]; ok {
			kind, withCtx, isEmit := emitKind(name)
			if !isEmit {
				return
			}
			var n ast.Node = site.Call
			if s.Expr != nil {
				n = s.Expr
			}
			r := w.rec(n, fr)
			r.Ctx, r.Slot, r.BasePos, r.InLoop = site.Src, k, n.Pos(), false
			w.sc.Emits = append(w.sc.Emits, &EmitSite{Rec: r, Node: n, Kind: kind, WithCtx: withCtx, ToDest: s.Recv.Kind == AVDest,
				Recv: s.Recv, RecvExpr: recvExprOf(s.Expr), Forwarder: true})
		}
	case AVParam:
		if w.sc.UserParams[s.Param] {
			r := w.rec(site.Call, fr)
			r.Ctx, r.Slot = site.Src, k
			w.sc.UserCalls = append(w.sc.UserCalls, &UserCall{Rec: r, Call: site.Call, Param: s.Param})
		}
	default:
		w.sc.Unknown = append(w.sc.Unknown, fmt.Sprintf("observer slot %s of subscribe site at %s is not resolved", SlotNames[k], m.Prog.Rel(site.Call.Pos())))
	}
}

func recvExprOf(e ast.Expr) ast.Expr {
	if sel, ok := ast.Unparen(e).(*ast.SelectorExpr); ok {
		return sel.X
	}
	return nil
}

func emitKind(name string) (kind int, withCtx bool, ok bool) {
	switch name {
	case "Next":
		return EmitNext, false, true
	case "NextWithContext":
		return EmitNext, true, true
	case "Error":
		return EmitError, false, true
	case "ErrorWithContext":
		return EmitError, true, true
	case "Complete":
		return EmitComplete, false, true
	case "CompleteWithContext":
		return EmitComplete, true, true
	}
	return 0, false, false
}

func (w *walker) observerCall(call *ast.CallExpr, name string, callee *types.Func, fr frame, deferred bool) {
	sel, _ := ast.Unparen(call.Fun).(*ast.SelectorExpr)
	if sel == nil {
		return
	}
	recv := w.eval(sel.X, fr)
	kind, withCtx, isEmit := emitKind(name)
	if !isEmit {
		// IsClosed / HasThrown / IsCompleted
		w.sc.SubOps = append(w.sc.SubOps, &SubOp{Rec: w.rec(call, fr), Call: call, Method: "Observer." + name, Recv: recv, RecvExpr: sel.X})
		return
	}
	e := &EmitSite{Rec: w.rec(call, fr), Node: call, Kind: kind, WithCtx: withCtx, ToDest: recv.Kind == AVDest, Recv: recv, RecvExpr: sel.X, Deferred: deferred}
	if withCtx && len(call.Args) > 0 {
		e.CtxArg = call.Args[0]
		e.Args = call.Args[1:]
	} else {
		e.Args = call.Args
	}
	w.sc.Emits = append(w.sc.Emits, e)
}

// emitVia records a call through a function value that is an observer method value
// (e.g. onNext(ctx, v) inside processNotificationWithContext bound to dest.NextWithContext).
func (w *walker) emitVia(call *ast.CallExpr, name string, fv *AV, fr frame, deferred bool) {
	kind, withCtx, isEmit := emitKind(name)
	if !isEmit {
		return
	}
	e := &EmitSite{Rec: w.rec(call, fr), Node: call, Kind: kind, WithCtx: withCtx, ToDest: fv.Recv.Kind == AVDest, Recv: fv.Recv, Deferred: deferred}
	if withCtx && len(call.Args) > 0 {
		e.CtxArg = call.Args[0]
		e.Args = call.Args[1:]
	} else {
		e.Args = call.Args
	}
	w.sc.Emits = append(w.sc.Emits, e)
}

func (w *walker) subscriptionCall(call *ast.CallExpr, name string, fr frame) {
	sel, _ := ast.Unparen(call.Fun).(*ast.SelectorExpr)
	if sel == nil {
		return
	}
	// sel.X was already walked by call()
	recv := w.eval(sel.X, fr)
	op := &SubOp{Rec: w.rec(call, fr), Call: call, Method: name, Recv: recv, RecvExpr: sel.X}
	switch name {
	case "Add":
		if len(call.Args) == 1 {
			a := call.Args[0]
			if _, isLit := ast.Unparen(a).(*ast.FuncLit); !isLit {
				w.node(a, fr)
			}
			op.ArgExpr = a
			op.Arg = w.eval(a, fr)
			_, argIsCall := ast.Unparen(a).(*ast.CallExpr) // an inlined helper's return already created the teardown context
			if op.Arg.Kind == AVFunc && !argIsCall {
				c := w.newCtx(KTeardown, fr.ctx, fr.slot, call, op.BasePos, fr.loop > 0, fr.via)
				c.OwnerAV, c.OwnerExpr = recv, sel.X
				w.enterFunc(op.Arg, nil, call, frame{ctx: c, slot: -1, depth: fr.depth, via: fr.via, stack: fr.stack})
			}
		}
	case "AddUnsubscribable":
		if len(call.Args) == 1 {
			w.node(call.Args[0], fr)
			op.ArgExpr = call.Args[0]
			op.Arg = w.eval(call.Args[0], fr)
		}
	case "Wait":
		w.sc.Blocks = append(w.sc.Blocks, &BlockSite{Rec: op.Rec, Node: call, What: "wait", Recv: recv, Expr: sel.X})
		if recv.Kind == AVSub && recv.Site != nil && recv.Site.Ctx == fr.ctx {
			recv.Site.Src.Awaited = true
		}
	}
	w.sc.SubOps = append(w.sc.SubOps, op)
}

// ---------------------------------------------------------------------------
// evaluation

func (w *walker) eval(e ast.Expr, fr frame) *AV {
	return w.evalIn(e, fr.env, 0)
}

func (w *walker) evalIn(e ast.Expr, env *Env, depth int) *AV {
	unk := &AV{Kind: AVUnknown, Expr: e}
	if e == nil || depth > 8 || env == nil {
		return unk
	}
	info := env.Pkg.TypesInfo
	m := w.m
	switch x := ast.Unparen(e).(type) {
	case *ast.Ident:
		o := objOf(info, x)
		if o == nil {
			return unk
		}
		if _, ok := o.(*types.Nil); ok {
			return &AV{Kind: AVNil, Expr: e}
		}
		if v := env.lookup(o); v != nil {
			return v
		}
		switch ov := o.(type) {
		case *types.Func:
			if d := m.Decls[ov.Origin()]; d != nil {
				return &AV{Kind: AVFunc, Decl: d, Expr: e}
			}
			return unk
		case *types.Var:
			if ov.IsField() {
				return unk
			}
			defs := m.Defs[o]
			if len(defs) == 0 {
				// parameter (or zero-valued variable)
				if w.sc.UserParams[ov] {
					return &AV{Kind: AVParam, Param: ov, Expr: e}
				}
				return unk
			}
			var only *DefSite
			n := 0
			for i := range defs {
				if defs[i].Expr == nil {
					return unk
				}
				if isZeroLike(info, defs[i].Expr) {
					continue
				}
				only = &defs[i]
				n++
			}
			if n != 1 {
				return unk
			}
			denv := env.declaring(o.Pos())
			if denv == nil {
				return unk
			}
			v := w.evalIn(only.Expr, denv, depth+1)
			if v.Kind != AVUnknown {
				denv.vars[o] = v
			}
			return v
		}
		return unk
	case *ast.FuncLit:
		return &AV{Kind: AVFunc, Lit: x, Env: env, Expr: e}
	case *ast.SelectorExpr:
		if s, ok := info.Selections[x]; ok {
			if s.Kind() == types.MethodVal {
				fn, _ := s.Obj().(*types.Func)
				if fn == nil {
					return unk
				}
				return &AV{Kind: AVMethodVal, Recv: w.evalIn(x.X, env, depth+1), Method: fn.Origin(), Expr: e}
			}
			return unk
		}
		// qualified identifier
		if fn, ok := info.Uses[x.Sel].(*types.Func); ok {
			if d := m.Decls[fn.Origin()]; d != nil {
				return &AV{Kind: AVFunc, Decl: d, Expr: e}
			}
		}
		return unk
	case *ast.IndexExpr:
		if tv, ok := info.Types[x.X]; ok && !tv.IsType() {
			if _, isSig := tv.Type.Underlying().(*types.Signature); isSig {
				return w.evalIn(x.X, env, depth+1)
			}
		}
		return unk
	case *ast.IndexListExpr:
		return w.evalIn(x.X, env, depth+1)
	case *ast.TypeAssertExpr:
		// destination.(Subscription) is still the destination
		if v := w.evalIn(x.X, env, depth+1); v.Kind == AVDest || v.Kind == AVSub || v.Kind == AVComposite {
			return v
		}
		return unk
	case *ast.CallExpr:
		for c := env; c != nil; c = c.Parent {
			if v, ok := c.callVals[x]; ok {
				return v
			}
		}
		if tv, ok := info.Types[x.Fun]; ok && tv.IsType() && len(x.Args) == 1 {
			return w.evalIn(x.Args[0], env, depth+1)
		}
		callee := Callee(info, x)
		if callee == nil {
			return unk
		}
		if oc, ok := m.Obj.ObserverCtors[callee]; ok {
			av := &AV{Kind: AVObserver, OCtor: &oc, Expr: e}
			for k := 0; k < 3; k++ {
				if idx := oc.Slots[k]; idx >= 0 && idx < len(x.Args) {
					av.Slots[k] = w.evalIn(x.Args[idx], env, depth+1)
				}
			}
			return av
		}
		if _, ok := m.Obj.SubscriberCtors[callee]; ok && len(x.Args) >= 1 {
			return w.evalIn(x.Args[0], env, depth+1)
		}
		if callee == m.Obj.NewSubscription {
			return &AV{Kind: AVComposite, Expr: x}
		}
		// closure-returning helper: func h(dest, ...) func(...) { return func(...) {...} }
		if d := m.Decls[callee]; d != nil && d.Decl.Body != nil {
			if sig := callee.Type().(*types.Signature); sig.Results().Len() == 1 {
				if _, isFn := sig.Results().At(0).Type().Underlying().(*types.Signature); isFn {
					if lit := singleReturnedLit(d.Decl.Body); lit != nil {
						henv := newEnv(nil, d.Decl, d.Pkg)
						for i, p := range flattenParams(d.Pkg.TypesInfo, d.Decl.Type.Params) {
							if p != nil && i < len(x.Args) {
								if v := w.evalIn(x.Args[i], env, depth+1); v.Kind != AVUnknown {
									henv.vars[p] = v
								}
							}
						}
						av := &AV{Kind: AVFunc, Lit: lit, Env: henv, Expr: e}
						env.callVals[x] = av
						return av
					}
				}
			}
		}
		return unk
	}
	return unk
}

// singleReturnedLit returns the literal when every return statement of body (outside
// nested literals) returns one function literal and there is exactly one such statement.
func singleReturnedLit(body *ast.BlockStmt) *ast.FuncLit {
	var lit *ast.FuncLit
	n := 0
	ast.Inspect(body, func(c ast.Node) bool {
		switch x := c.(type) {
		case *ast.FuncLit:
			return false
		case *ast.ReturnStmt:
			n++
			if len(x.Results) == 1 {
				if l, ok := ast.Unparen(x.Results[0]).(*ast.FuncLit); ok {
					lit = l
				}
			}
			return false
		}
		return true
	})
	if n == 1 {
		return lit
	}
	return nil
}

func isZeroLike(info *types.Info, e ast.Expr) bool {
	if id, ok := ast.Unparen(e).(*ast.Ident); ok {
		if _, ok := info.Uses[id].(*types.Nil); ok {
			return true
		}
	}
	return false
}

// EvalAt evaluates an expression in the environment of a record (for rules).
func (m *Model) EvalAt(sc *SC, e ast.Expr, env *Env) *AV {
	w := &walker{m: m, sc: sc, memo: map[string]bool{}, walked: map[*ast.FuncLit]bool{}}
	return w.evalIn(e, env, 0)
}

func (w *walker) finish() {
	sc := w.sc
	cnt := map[string]int{}
	key := func(base string) string {
		cnt[base]++
		return fmt.Sprintf("%s#%d", base, cnt[base])
	}
	for _, s := range sc.SubSites {
		s.Key = key(fmt.Sprintf("%s/%s/sub", sc.String(), ctxKey(s.Ctx, s.Slot)))
	}
	for _, e := range sc.Emits {
		e.Key = key(fmt.Sprintf("%s/%s/emit-%s", sc.String(), ctxKey(e.Ctx, e.Slot), SlotNames[e.Kind]))
	}
	for _, u := range sc.UserCalls {
		u.Key = key(fmt.Sprintf("%s/%s/user-call", sc.String(), ctxKey(u.Ctx, u.Slot))) // by ordinal, not by parameter name: a rename keeps the key
	}
}

func ctxKey(c *Ctx, slot int) string {
	if c == nil {
		return "-"
	}
	s := ""
	switch c.Kind {
	case KBody:
		s = "body"
	case KSrc:
		s = fmt.Sprintf("src%d", c.Site.ID)
		if slot >= 0 {
			s += "." + SlotNames[slot]
		}
	default:
		s = c.Kind.String()
	}
	if c.Parent != nil && c.Parent.Kind != KBody {
		return ctxKey(c.Parent, c.ParentSlot) + ">" + s
	}
	return s
}

// CtxKey renders a stable key of a context (+slot).
func CtxKey(c *Ctx, slot int) string { return ctxKey(c, slot) }

// Package load type-checks samber/ro at /repo without touching it.
//
// /repo only builds in workspace mode, and go commands executed inside it rewrite
// go.work.sum / plugin go.mod files. We therefore generate a scratch go.work (in a
// mktemp directory removed on exit) whose `use` lines are absolute paths to the modules
// that /repo/go.work uses, copy go.work.sum next to it and point GOWORK at it.
package load

import (
	"fmt"
	"go/ast"
	"go/token"
	"go/types"
	"golang.org/x/mod/module"
	"golang.org/x/mod/semver"
	"os"
	"os/exec"
	"path/filepath"
	"sort"
	"strings"

	"golang.org/x/mod/modfile"
	"golang.org/x/tools/go/packages"
)

const RoPath = "github.com/samber/ro"

// Program is the loaded, type-checked program.
type Program struct {
	Repo   string
	Fset   *token.FileSet
	Roots  []*packages.Package          // packages matching the patterns
	ByPath map[string]*packages.Package // all packages incl. dependencies
	NFiles int
}

// Pkg returns the root package with the given import path or nil.
func (p *Program) Pkg(path string) *packages.Package {
	for _, r := range p.Roots {
		if r.PkgPath == path {
			return r
		}
	}
	return nil
}

// Rel renders a position relative to the repository root.
func (p *Program) Rel(pos token.Pos) string {
	if !pos.IsValid() {
		return "-"
	}
	ps := p.Fset.Position(pos)
	f := ps.Filename
	if r, err := filepath.Rel(p.Repo, f); err == nil && !strings.HasPrefix(r, "..") {
		f = r
	}
	return fmt.Sprintf("%s:%d", f, ps.Line)
}

// Config of one load.
type Config struct {
	Repo     string            // default /repo
	Patterns []string          // import paths
	Overlay  map[string][]byte // absolute file name -> content (positive controls, mutants)
	Tags     []string
}

// Load loads the patterns. Any load or type error is returned (fail closed).
func Load(cfg Config) (*Program, error) {
	repo := cfg.Repo
	if repo == "" {
		repo = "/repo"
	}
	repo, err := filepath.Abs(repo)
	if err != nil {
		return nil, err
	}
	scratch, err := os.MkdirTemp("", "rocheck-work-")
	if err != nil {
		return nil, err
	}
	defer os.RemoveAll(scratch)

	workData, err := os.ReadFile(filepath.Join(repo, "go.work"))
	if err != nil {
		return nil, fmt.Errorf("read go.work: %w", err)
	}
	wf, err := modfile.ParseWork("go.work", workData, nil)
	if err != nil {
		return nil, fmt.Errorf("parse go.work: %w", err)
	}
	var sb strings.Builder
	goVersion := "1.18"
	if wf.Go != nil {
		goVersion = wf.Go.Version
	}
	fmt.Fprintf(&sb, "go %s\n\nuse (\n", goVersion)
	nuse := 0
	var usedDirs, excludedDirs []string
	for _, u := range wf.Use {
		p := u.Path
		if !filepath.IsAbs(p) {
			p = filepath.Join(repo, p)
		}
		// examples are never analysed and some need modules absent from the cache
		if strings.HasPrefix(p, filepath.Join(repo, "examples")+string(filepath.Separator)) {
			excludedDirs = append(excludedDirs, p)
			continue
		}
		if _, err := os.Stat(filepath.Join(p, "go.mod")); err != nil {
			continue
		}
		fmt.Fprintf(&sb, "\t%s\n", p)
		usedDirs = append(usedDirs, p)
		nuse++
	}
	sb.WriteString(")\n")
	sb.WriteString(cachedReplacements(usedDirs, excludedDirs))
	if nuse == 0 {
		return nil, fmt.Errorf("go.work has no usable `use` entries")
	}
	if err := os.WriteFile(filepath.Join(scratch, "go.work"), []byte(sb.String()), 0o644); err != nil {
		return nil, err
	}
	if sum, err := os.ReadFile(filepath.Join(repo, "go.work.sum")); err == nil {
		if err := os.WriteFile(filepath.Join(scratch, "go.work.sum"), sum, 0o644); err != nil {
			return nil, err
		}
	}

	env := []string{}
	for _, e := range os.Environ() {
		k := e
		if i := strings.IndexByte(e, '='); i >= 0 {
			k = e[:i]
		}
		switch k {
		case "GOWORK", "GOFLAGS", "GOPROXY", "GOSUMDB", "GOTOOLCHAIN", "GO111MODULE", "GOOS", "GOARCH":
			continue
		}
		env = append(env, e)
	}
	env = append(env,
		"GOWORK="+filepath.Join(scratch, "go.work"),
		"GOFLAGS=",
		"GOPROXY=off",
		"GOSUMDB=off",
		"GOTOOLCHAIN=local",
	)

	fset := token.NewFileSet()
	pc := &packages.Config{
		Mode:    packages.LoadAllSyntax,
		Dir:     repo,
		Env:     env,
		Fset:    fset,
		Tests:   false,
		Overlay: cfg.Overlay,
	}
	if len(cfg.Tags) > 0 {
		pc.BuildFlags = []string{"-tags=" + strings.Join(cfg.Tags, ",")}
	}
	pkgs, err := packages.Load(pc, cfg.Patterns...)
	if err != nil {
		return nil, fmt.Errorf("packages.Load: %w", err)
	}
	if len(pkgs) == 0 {
		return nil, fmt.Errorf("no packages loaded for %v", cfg.Patterns)
	}
	prog := &Program{Repo: repo, Fset: fset, ByPath: map[string]*packages.Package{}}
	var errs []string
	packages.Visit(pkgs, nil, func(p *packages.Package) {
		prog.ByPath[p.PkgPath] = p
		inRepo := strings.HasPrefix(p.PkgPath, RoPath)
		for _, e := range p.Errors {
			// errors in third-party dependencies that are not needed are ignored; errors
			// in samber/ro packages fail the load
			if inRepo {
				errs = append(errs, fmt.Sprintf("%s: %s", p.PkgPath, e.Error()))
			}
		}
	})
	for _, p := range pkgs {
		if p.Types == nil || p.TypesInfo == nil || len(p.Syntax) == 0 {
			errs = append(errs, fmt.Sprintf("%s: no syntax/types", p.PkgPath))
		}
		if p.IllTyped {
			errs = append(errs, fmt.Sprintf("%s: ill-typed", p.PkgPath))
		}
		prog.NFiles += len(p.Syntax)
	}
	if len(errs) > 0 {
		sort.Strings(errs)
		if len(errs) > 20 {
			errs = errs[:20]
		}
		return nil, fmt.Errorf("load errors:\n  %s", strings.Join(errs, "\n  "))
	}
	sort.Slice(pkgs, func(i, j int) bool { return pkgs[i].PkgPath < pkgs[j].PkgPath })
	prog.Roots = pkgs
	return prog, nil
}

// FuncDeclOf finds the declaration of a package-level function or method by name
// ("Name" or "Type.Name") in pkg.
func FuncDeclOf(pkg *packages.Package, name string) *ast.FuncDecl {
	recv, fn := "", name
	if i := strings.IndexByte(name, '.'); i >= 0 {
		recv, fn = name[:i], name[i+1:]
	}
	for _, f := range pkg.Syntax {
		for _, d := range f.Decls {
			fd, ok := d.(*ast.FuncDecl)
			if !ok || fd.Name.Name != fn {
				continue
			}
			if recv == "" && fd.Recv == nil {
				return fd
			}
			if recv != "" && fd.Recv != nil && len(fd.Recv.List) == 1 && RecvTypeName(fd.Recv.List[0].Type) == recv {
				return fd
			}
		}
	}
	return nil
}

// RecvTypeName extracts the receiver's named type from a receiver type expression.
func RecvTypeName(e ast.Expr) string {
	for {
		switch t := e.(type) {
		case *ast.StarExpr:
			e = t.X
		case *ast.ParenExpr:
			e = t.X
		case *ast.IndexExpr:
			e = t.X
		case *ast.IndexListExpr:
			e = t.X
		case *ast.Ident:
			return t.Name
		default:
			return ""
		}
	}
}

// NamedOf strips pointers and returns the named type.
func NamedOf(t types.Type) *types.Named {
	for {
		switch u := t.(type) {
		case *types.Pointer:
			t = u.Elem()
		case *types.Named:
			return u
		case *types.Alias:
			t = types.Unalias(u)
		default:
			return nil
		}
	}
}

// cachedReplacements: in the repository's own workspace the example modules (not loaded here) take part in version
// selection. Where an excluded module requires a newer version of a dependency than a used module does, and only that
// newer version is in the module cache, the used module's requirement is redirected to it with a workspace-level
// replace — which is what minimal version selection does in the full workspace.
func cachedReplacements(moduleDirs, excludedDirs []string) string {
	out, err := exec.Command("go", "env", "GOMODCACHE").Output()
	if err != nil {
		return ""
	}
	cache := strings.TrimSpace(string(out))
	if cache == "" {
		return ""
	}
	cached := func(path, version string) bool {
		esc, err := module.EscapePath(path)
		if err != nil {
			return false
		}
		_, err = os.Stat(filepath.Join(cache, esc+"@"+version))
		return err == nil
	}
	requires := func(dir string) []module.Version {
		data, err := os.ReadFile(filepath.Join(dir, "go.mod"))
		if err != nil {
			return nil
		}
		mf, err := modfile.Parse("go.mod", data, nil)
		if err != nil {
			return nil
		}
		var out []module.Version
		for _, r := range mf.Require {
			out = append(out, r.Mod)
		}
		return out
	}
	// newest cached version that an excluded module asks for, per path
	raised := map[string]string{}
	for _, dir := range excludedDirs {
		for _, r := range requires(dir) {
			if semver.IsValid(r.Version) && cached(r.Path, r.Version) && (raised[r.Path] == "" || semver.Compare(r.Version, raised[r.Path]) > 0) {
				raised[r.Path] = r.Version
			}
		}
	}
	done := map[string]bool{}
	var sb strings.Builder
	for _, dir := range moduleDirs {
		for _, r := range requires(dir) {
			up := raised[r.Path]
			key := r.Path + "@" + r.Version
			if up == "" || done[key] || !semver.IsValid(r.Version) || semver.Compare(up, r.Version) <= 0 || cached(r.Path, r.Version) {
				continue
			}
			done[key] = true
			fmt.Fprintf(&sb, "replace %s %s => %s %s\n", r.Path, r.Version, r.Path, up)
		}
	}
	return sb.String()
}
